// C10 — image linearise/encode is the per-pixel function, everywhere and only there.
package c10

import (
	"bytes"
	"fmt"
	"image"
	"image/color"
	"image/draw"
	"runtime"
	"strings"
	"testing"

	"github.com/mandykoh/prism/linear"
	"pgregory.net/rapid"

	"verif/internal/ev"
	"verif/internal/img"
	"verif/internal/sp"
)

func TestMain(m *testing.M) { ev.Main(m, "C10", "exploration") }

type Case struct {
	Src       img.Spec `json:"src"`
	Dst       img.Spec `json:"dst"`
	InPlace   bool     `json:"in_place"`
	Par       int      `json:"parallelism"`
	Transform string   `json:"transform"` // "<space>.Linearise", "<space>.Encode", "custom"
	// Canvas: source and destination are two disjoint sub-images of ONE parent image (Src.Parent, of type
	// Src.Type): tile-to-tile work on a shared canvas.  Src.Rect and Dst.Rect lie inside Src.Parent.
	Canvas bool `json:"canvas,omitempty"`
	// After > 0: the case directly follows image calls outside the property's domain (parallelism 0 or negative, on a
	// small image; number After-1 of a fixed list), whose effects - a panic included - are ignored
	After int `json:"after,omitempty"`
}

func outside(i int) {
	src := image.NewRGBA64(image.Rect(0, 0, 3, 2))
	for k := range src.Pix {
		src.Pix[k] = 0xFF
	}
	dst := image.NewRGBA64(image.Rect(0, 0, 3, 2))
	s := &sp.Spaces[i%len(sp.Spaces)]
	par := []int{0, -1, -100, 0}[i%4]
	ev.Guard(func() {
		if i%2 == 0 {
			s.LineariseImage(dst, src, par)
		} else {
			s.EncodeImage(dst, src, par)
		}
	})
	ev.Guard(func() { linear.TransformImageColor(dst, src, par, custom) })
}

func custom(c color.Color) color.RGBA64 {
	r, g, b, a := c.RGBA()
	return color.RGBA64{R: uint16(g) ^ 0x1234, G: uint16(b) ^ 0x00FF, B: uint16(a) ^ 0x8001, A: uint16(r) ^ 0x0F0F}
}

// customTyped looks at the pixel's own colour type first, as a caller's function may (prism's own
// ColorFromEncodedColor does): for the non-premultiplied and the non-RGB types it works on the stored fields, which the
// 16-bit premultiplied form no longer has.  Outputs are valid premultiplied colours.
func customTyped(c color.Color) color.RGBA64 {
	switch v := c.(type) {
	case color.NRGBA:
		if v.A == 0 {
			return color.RGBA64{}
		}
		return color.RGBA64{R: uint16(v.B), G: uint16(v.R), B: uint16(v.G), A: uint16(v.A) * 257}
	case color.NRGBA64:
		if v.A == 0 {
			return color.RGBA64{}
		}
		m := uint32(v.A) + 1
		return color.RGBA64{R: uint16(uint32(v.G) % m), G: uint16(uint32(v.B) % m), B: uint16(uint32(v.R) % m), A: v.A}
	case color.YCbCr:
		return color.RGBA64{R: uint16(v.Cr) * 257, G: uint16(v.Y) * 257, B: uint16(v.Cb) * 257, A: 0xFFFF}
	case color.NYCbCrA:
		a := uint16(v.A) * 257
		return color.RGBA64{R: uint16(v.Cr) * uint16(v.A), G: uint16(v.Y) * uint16(v.A), B: uint16(v.Cb) * uint16(v.A), A: a}
	case color.CMYK:
		return color.RGBA64{R: uint16(v.K) * 257, G: uint16(v.C) * 257, B: uint16(v.M)*256 + uint16(v.Y), A: 0xFFFF}
	case color.Gray:
		return color.RGBA64{R: uint16(v.Y) * 257, G: 0x00FF, B: uint16(v.Y), A: 0xFFFF}
	case color.Gray16:
		return color.RGBA64{R: v.Y, G: v.Y >> 3, B: ^v.Y, A: 0xFFFF}
	case color.Alpha:
		return color.RGBA64{R: uint16(v.A), G: 0, B: uint16(v.A) * 257, A: uint16(v.A) * 257}
	}
	return custom(c)
}

var Transforms = func() []string {
	t := []string{"custom", "custom-typed"}
	for _, s := range sp.Spaces {
		t = append(t, s.Name+".Linearise", s.Name+".Encode")
	}
	return t
}()

func resolve(name string) (apply func(draw.Image, image.Image, int), perColour func(color.Color) color.RGBA64) {
	if name == "custom" {
		return func(d draw.Image, s image.Image, p int) { linear.TransformImageColor(d, s, p, custom) }, custom
	}
	if name == "custom-typed" {
		return func(d draw.Image, s image.Image, p int) { linear.TransformImageColor(d, s, p, customTyped) }, customTyped
	}
	for i := range sp.Spaces {
		s := &sp.Spaces[i]
		switch name {
		case s.Name + ".Linearise":
			return s.LineariseImage, s.LineariseColor
		case s.Name + ".Encode":
			return s.EncodeImage, s.EncodeColor
		}
	}
	panic("unknown transform " + name)
}

func checkCanvas(c Case) (kind, what string, classes []string) {
	apply, f := resolve(c.Transform)
	ps := c.Src
	ps.Rect, ps.Wrap = ps.Parent, false
	canvas, model, srcCopy := img.Build(ps), img.Build(ps), img.Build(ps)
	type subber interface {
		SubImage(image.Rectangle) image.Image
	}
	sub := func(b img.Built, r [4]int) image.Image {
		return b.Img.(subber).SubImage(image.Rect(r[0], r[1], r[2], r[3]))
	}
	srcImg, dstImg := sub(canvas, c.Src.Rect), sub(canvas, c.Dst.Rect).(draw.Image)
	if pn, msg := ev.Guard(func() { apply(dstImg, srcImg, c.Par) }); pn {
		return "panic", msg, nil
	}
	msrc, mdst := sub(srcCopy, c.Src.Rect), sub(model, c.Dst.Rect).(draw.Image)
	sb, db := msrc.Bounds(), mdst.Bounds()
	for y := sb.Min.Y; y < sb.Max.Y; y++ {
		for x := sb.Min.X; x < sb.Max.X; x++ {
			mdst.Set(db.Min.X+(x-sb.Min.X), db.Min.Y+(y-sb.Min.Y), f(msrc.At(x, y)))
		}
	}
	got, want := canvas.Snapshot(), model.Snapshot()
	for i := range got {
		for k := range got[i] {
			if got[i][k] != want[i][k] {
				return "pixel", fmt.Sprintf("%s: source %v and destination %v are disjoint sub-images of one %s canvas %v, parallelism %d: canvas buffer byte %d = %#x, model %#x",
					c.Transform, c.Src.Rect, c.Dst.Rect, c.Src.Type, c.Src.Parent, c.Par, k, got[i][k], want[i][k]), []string{"shared-canvas", "sub-image"}
			}
		}
	}
	return "", "", []string{"shared-canvas", "sub-image"}
}

func check(c Case) (kind, what string, classes []string) {
	ev.Journal("transform", c)
	if c.After > 0 {
		outside(c.After - 1)
	}
	if c.Canvas {
		return checkCanvas(c)
	}
	kind, what, classes = checkOnce(c, false)
	if kind == "" && !c.InPlace && (c.Src.Type == "Paletted" || ev.Hash(c)%4 == 0) {
		// the transform runs once on the source as built (warming whatever the library remembers about it), the
		// source is changed in place (palette cycling, a reused frame buffer), and the transform under test runs
		if k, w, _ := checkOnce(c, true); k != "" {
			return k, "second transform of the same source image value after it was changed in place: " + w, classes
		}
	}
	return
}

func changeInPlace(b img.Built) {
	if p, ok := img.Unwrap(b.Img).(*image.Paletted); ok {
		for i := range p.Palette {
			r, g, bl, a := p.Palette[i].RGBA()
			p.Palette[i] = color.NRGBA64{R: uint16(bl) ^ 0x1357, G: uint16(r), B: uint16(g) ^ 0xFF00, A: uint16(a) | 0x8000}
		}
		return
	}
	for _, buf := range b.Bufs {
		for i := range *buf {
			(*buf)[i] ^= byte(0x5A + i%7)
		}
	}
}

func checkOnce(c Case, warmThenChange bool) (kind, what string, classes []string) {
	apply, f := resolve(c.Transform)
	var src, dst, srcCopy, model img.Built
	if c.InPlace {
		src = img.Build(c.Src)
		dst = src
		srcCopy = img.Build(c.Src)
		model = img.Build(c.Src)
	} else {
		src, dst = img.Build(c.Src), img.Build(c.Dst)
		srcCopy, model = img.Build(c.Src), img.Build(c.Dst)
	}
	// orbit content: each pixel is the transform of its left (orbit-h) or upper (orbit-v) neighbour, the natural
	// adversarial content for in-place use and for shortcuts that compare neighbouring pixels
	if c.Src.Fill == "orbit-h" || c.Src.Fill == "orbit-v" {
		for bi, b := range []img.Built{src, srcCopy, model} {
			if !c.InPlace && bi == 2 { // the model of a separate destination keeps its own content
				continue
			}
			m, ok := b.Img.(draw.Image)
			if !ok {
				continue
			}
			r := m.Bounds()
			for y := r.Min.Y; y < r.Max.Y; y++ {
				for x := r.Min.X; x < r.Max.X; x++ {
					px, py := x-1, y
					if c.Src.Fill == "orbit-v" {
						px, py = x, y-1
					}
					if px >= r.Min.X && py >= r.Min.Y {
						m.Set(x, y, f(m.At(px, py)))
					}
				}
			}
		}
	}
	dimg, ok := dst.Img.(draw.Image)
	if !ok {
		return "harness", "destination is not a draw.Image", nil
	}
	if warmThenChange {
		scratch := img.Build(c.Dst)
		if pn, msg := ev.Guard(func() { apply(scratch.Img.(draw.Image), src.Img, c.Par) }); pn {
			return "panic", msg, nil
		}
		changeInPlace(src)
		changeInPlace(srcCopy)
	}
	srcBefore := src.Snapshot()
	if pn, msg := ev.Guard(func() { apply(dimg, src.Img, c.Par) }); pn {
		return "panic", msg, nil
	}
	// reference model: through the standard library's Set on an independent clone
	mimg := model.Img.(draw.Image)
	sb, db := srcCopy.Img.Bounds(), mimg.Bounds()
	for y := sb.Min.Y; y < sb.Max.Y; y++ {
		for x := sb.Min.X; x < sb.Max.X; x++ {
			mimg.Set(db.Min.X+(x-sb.Min.X), db.Min.Y+(y-sb.Min.Y), f(srcCopy.Img.At(x, y)))
		}
	}
	// classification
	if db.Min != sb.Min {
		classes = append(classes, "origin-differs")
	}
	if c.Dst.IsSub() && !c.InPlace || c.Src.IsSub() {
		classes = append(classes, "sub-image")
	}
	if c.Par > 1 && sb.Dy() >= 2 {
		classes = append(classes, "parallel")
	}
	dt := c.Dst
	if c.InPlace {
		dt = c.Src
	}
	if !dt.Wrap && (dt.Type == "RGBA64" || dt.Type == "RGBA") {
		classes = append(classes, "fast-path")
	}
	if c.InPlace {
		classes = append(classes, "in-place")
	}
	got, want := dst.Snapshot(), model.Snapshot()
	for i := range got {
		if !bytes.Equal(got[i], want[i]) {
			for k := range got[i] {
				if got[i][k] != want[i][k] {
					return "pixel", fmt.Sprintf("%s: dst(%s %v parent %v wrap=%v) <- src(%s %v wrap=%v) parallelism %d in-place=%v: destination buffer byte %d = %#x, model %#x",
						c.Transform, dt.Type, dt.Rect, dt.Parent, dt.Wrap, c.Src.Type, c.Src.Rect, c.Src.Wrap, c.Par, c.InPlace, k, got[i][k], want[i][k]), classes
				}
			}
		}
	}
	if !c.InPlace {
		after := src.Snapshot()
		for i := range after {
			if !bytes.Equal(after[i], srcBefore[i]) {
				return "source-modified", fmt.Sprintf("%s modified its source image (buffer %d)", c.Transform, i), classes
			}
		}
	}
	return "", "", classes
}

var dstTypes = []string{"RGBA64", "RGBA", "NRGBA", "NRGBA64"}

// every draw.Image type of the standard library is a legal destination: the pixel written is the destination
// colour model's conversion of the transformed colour (grey, alpha-only, CMYK and nearest-palette-entry included)
var allDstTypes = []string{"RGBA64", "RGBA", "NRGBA", "NRGBA64", "RGBA64", "RGBA", "Gray", "Gray16", "Alpha", "Alpha16", "CMYK", "Paletted"}

func genDst(rt *rapid.T, src img.Spec) img.Spec {
	d := img.Spec{Type: rapid.SampledFrom(allDstTypes).Draw(rt, "dtype"), PalN: 16}
	w, h := src.Rect[2]-src.Rect[0], src.Rect[3]-src.Rect[1]
	dw, dh := rapid.IntRange(0, 3).Draw(rt, "dw"), rapid.IntRange(0, 3).Draw(rt, "dh")
	ox, oy := rapid.IntRange(-6, 6).Draw(rt, "dx0"), rapid.IntRange(-6, 6).Draw(rt, "dy0")
	d.Rect = [4]int{ox, oy, ox + w + dw, oy + h + dh}
	if rapid.IntRange(0, 4).Draw(rt, "samebounds") == 0 {
		// exactly the source's bounds (a tile and the region of a canvas it goes to): equal rectangles say nothing
		// about equal strides or equal types
		d.Rect = src.Rect
		dw, dh = 0, 0
		ox, oy = src.Rect[0], src.Rect[1]
		if rapid.Bool().Draw(rt, "sametype") {
			for _, t := range allDstTypes {
				if t == src.Type {
					d.Type = t
				}
			}
		}
	}
	d.Parent = d.Rect
	if w+dw > 0 && h+dh > 0 && rapid.Bool().Draw(rt, "dsub") {
		d.Parent = [4]int{ox - rapid.IntRange(0, 3).Draw(rt, "dml"), oy - rapid.IntRange(0, 3).Draw(rt, "dmt"),
			ox + w + dw + rapid.IntRange(0, 3).Draw(rt, "dmr"), oy + h + dh + rapid.IntRange(0, 3).Draw(rt, "dmb")}
	}
	d.Fill = rapid.SampledFrom([]string{"ramp", "prng", "ff", "zero"}).Draw(rt, "dfill")
	d.Seed = rapid.Uint64().Draw(rt, "dseed")
	d.Wrap = rapid.IntRange(0, 4).Draw(rt, "dwrap") == 0
	return d
}

// fresh-process probes (see ev.ProbeOrders): the first transform of a process at each parallelism and for each
// fast-path type pair, and a soak of many small calls (state recycled from call to call: pools, generation
// counters, caches keyed by colour)
func init() {
	for _, par := range []int{1, 2, 3, 6, 7, 16, 300} {
		for _, tp := range [][2]string{{"RGBA64", "RGBA64"}, {"NRGBA", "NRGBA64"}, {"RGBA", "RGBA"}, {"YCbCr", "RGBA64"}, {"Paletted", "NRGBA"}} {
			par, tp := par, tp
			ev.RegisterProbe(fmt.Sprintf("first-%s-to-%s-par%d", tp[0], tp[1], par), func() string {
				for i, tr := range []string{"srgb.Linearise", "prophotorgb.Encode", "custom"} {
					c := Case{Src: img.Spec{Type: tp[0], Rect: [4]int{0, 0, 40, 11}, Parent: [4]int{0, 0, 40, 11}, Fill: []string{"ramp", "prng", "flatrows"}[i], Seed: uint64(3 + i), PalN: 256},
						Dst: img.Spec{Type: tp[1], Rect: [4]int{0, 0, 40, 11}, Parent: [4]int{0, 0, 40, 11}, Fill: "ramp", Seed: 9, PalN: 16}, Par: par, Transform: tr}
					if k, w, _ := check(c); k != "" {
						return w
					}
				}
				return ""
			})
		}
	}
	ev.RegisterProbe("soak:many small transforms", func() string { return manySmall(140000) })
}

// manySmall runs n small RGBA64 -> RGBA64 transforms (the fast path every per-call resource serves), cycling
// through the transforms, and compares every result with the per-colour function.
func manySmall(n int) string {
	// colour number j: unique to j (a counter-derived, validly premultiplied colour)
	u := func(j int) color.RGBA64 {
		if j < 0 {
			j = -j
		}
		x := uint64(j)*0x9E3779B97F4A7C15 + 0x1234567
		x ^= x >> 29
		a := uint16(0xFFFF)
		if j%3 == 0 {
			a = uint16(x>>48) | 1
		}
		return color.RGBA64{R: uint16(uint32(uint16(x)) * uint32(a) / 0xFFFF), G: uint16(uint32(uint16(x>>16)) * uint32(a) / 0xFFFF), B: uint16(uint32(uint16(x>>32)) * uint32(a) / 0xFFFF), A: a}
	}
	// call i carries its own colour and the colours of the calls 255, 256, 257, 65535, 65536 and 65537 calls ago
	// (counters and stamps wrap at such distances), each met again under another transform and not in between
	dist := []int{0, 255, 256, 257, 65535, 65536, 65537}
	src, dst := image.NewRGBA64(image.Rect(0, 0, len(dist), 1)), image.NewRGBA64(image.Rect(0, 0, len(dist), 1))
	type tf struct {
		apply func(draw.Image, image.Image, int)
		f     func(color.Color) color.RGBA64
	}
	var tfs []tf
	for _, name := range Transforms {
		a, f := resolve(name)
		tfs = append(tfs, tf{a, f})
	}
	// phase A (the first n calls): very few colours in all - a common one, and per distance d a rare one that occurs
	// only every d-th call - so that nothing a call leaves behind about a rare colour is disturbed until it returns;
	// phase B (20000 more calls): every colour new, each returning after 255..65537 calls
	rare := func(d int) color.RGBA64 { return u(1000000 + d) }
	common := u(999)
	for i := 0; i < n+20000; i++ {
		t := tfs[i%len(tfs)]
		pick := func(d int) color.RGBA64 {
			if i < n {
				if d > 0 && i%d == 0 {
					return rare(d)
				}
				return common
			}
			return u(i - d)
		}
		for x, d := range dist {
			src.SetRGBA64(x, 0, pick(d))
		}
		// the first 2^16 + some calls with one worker (one set of per-call resources handed from call to call), the
		// rest alternating one and two workers
		par := 1
		if i >= 1<<16+4000 {
			par = 1 + i%2
		}
		if pn, m := ev.Guard(func() { t.apply(dst, src, par) }); pn {
			return fmt.Sprintf("call %d of many small transforms panicked: %s", i+1, m)
		}
		for x, d := range dist {
			c := pick(d)
			if got, want := dst.RGBA64At(x, 0), t.f(c); got != want {
				return fmt.Sprintf("call %d of a long run of %dx1 RGBA64 transforms (%s): pixel %d %v (last seen %d calls ago under another transform) became %v, the per-colour function gives %v", i+1, len(dist), Transforms[i%len(tfs)], x, c, d, got, want)
			}
		}
	}
	return ""
}

func TestC10(t *testing.T) {
	if ev.Replaying() != nil {
		if ev.ReplayOrder(t) {
			return
		}
		var c Case
		if err := ev.ReplayCase(&c); err != nil {
			t.Fatal(err)
		}
		if k, w, _ := check(c); k != "" {
			ev.Fail(t, "transform", k, w, c)
		}
		fmt.Println("REPLAY case passed")
		return
	}
	ev.Rule("fresh-process probes: the first transform of a process for 5 type pairs x parallelism {1,2,3,6,7,16,300} (each once as the first action of a process, generated orders, environment presets) and a soak of 140000 seven-pixel RGBA64 transforms in which rare colours recur exactly 255..257 and 65535..65537 calls later under another transform (first among very few colours, then among all-new ones), checked against the per-colour function (as a process's first action, and again at the end of the run); rapid: source of every standard image type (incl. opaque wrapper, sub-images, negative origins, empty/1xN/Nx1, a quarter with 10..40 rows), destination of every standard draw.Image type (RGBA64, RGBA, NRGBA, NRGBA64, Gray, Gray16, Alpha, Alpha16, CMYK, Paletted) or an opaque wrapper with its own origin, size = source + (0..3, 0..3) (a fifth with exactly the source's bounds, half of those of the source's type), optionally a sub-image of a sentinel-filled parent; parallelism in {1,2,3,7,16,rows+5}; transform in {Linearise,Encode} x 4 spaces + TransformImageColor with an injective channel-rotating function and with a function that looks at the pixel's own colour type first; in-place for the draw.Image types; an eighth of the cases use two disjoint sub-images of one canvas as source and destination; a tenth directly follow an image call with parallelism 0 or negative, whose effects are ignored. Also a fixed cross product of source types x destination types x parallelism x transforms on awkward geometry, and banners (1-3 rows of 129..20000 pixels, widths around powers of two, sub-image destinations, in-place; a tenth of the rapid images and a sweep over every type pair). Oracle: Set()-based model on a clone, whole parent buffers compared byte for byte. non-trivial = distinct case with differing origins, a sub-image, parallelism>1 with >=2 rows, a concrete fast path, or in-place")
	ev.Assume("the per-colour functions themselves are checked by C01/C02/C14; destination at least as large as the source (the documented precondition)")
	ev.ProbeOrders(ev.Pick(1, 10))
	// fixed cross product
	n := 0
	for _, st := range img.Types {
		for _, dtyp := range allDstTypes[2:] {
			for _, dwrap := range []bool{false, true} {
				for pi, par := range []int{1, 3, 16, 28} {
					tr := Transforms[(n+pi)%len(Transforms)]
					n++
					s := img.Spec{Type: st, Ratio: n % 6, Rect: [4]int{2, 4, 9, 27}, Parent: [4]int{0, 1, 11, 29}, Fill: "prng", Seed: ev.Seed() + uint64(n), PalN: 255, Wrap: n%5 == 0}
					d := img.Spec{Type: dtyp, Rect: [4]int{-3, 6, 6, 30}, Parent: [4]int{-5, 4, 7, 33}, Fill: "ramp", Seed: 7, Wrap: dwrap, PalN: 16}
					c := Case{Src: s, Dst: d, Par: par, Transform: tr}
					ev.Eval(1)
					k, w, cl := check(c)
					if len(cl) > 0 {
						ev.NT(ev.Hash("fixed", c))
					}
					if k != "" {
						ev.Violation("transform", k, w, c)
					}
				}
			}
		}
	}
	ev.Class("fixed-cross-product", int64(n))
	// big images (2^16 .. 2^18 pixels, many rows, parallelism 1..32 or equal to the row count)
	{
		x := ev.Seed()*0x9E3779B97F4A7C15 + 10
		next := func(n int) int {
			x ^= x << 13
			x ^= x >> 7
			x ^= x << 17
			return int(x>>33) % n
		}
		nb := ev.Pick(40, 600)
		for i := 0; i < nb; i++ {
			total := []int{1 << 16, 1 << 18, 1<<18 + 1}[next(3)]
			h := 64 + next(1200)
			w := (total + h - 1) / h
			par := 1 + next(32)
			if i%4 == 0 {
				par = []int{h, h + 1, 11, 13}[next(4)]
			}
			st := append([]string{"RGBA64", "NRGBA", "RGBA", "NRGBA64"}, img.Types...)[next(4+len(img.Types))]
			// more pixels than a type has values, with the extreme values present (ff) or spread (ramp, prng)
			s := img.Spec{Type: st, Ratio: next(6), Rect: [4]int{1, 2, 1 + w, 2 + h}, Parent: [4]int{1, 2, 1 + w, 2 + h}, Fill: []string{"prng", "prng", "ff", "ramp", "rowbands", "flatrows", "flatcols", "rowpairs"}[next(8)], Seed: uint64(i) + ev.Seed(), PalN: 256}
			d := img.Spec{Type: dstTypes[next(4)], Rect: [4]int{-2, 3, -2 + w, 3 + h}, Parent: [4]int{-2, 3, -2 + w, 3 + h}, Fill: "ramp", Seed: 3}
			c := Case{Src: s, Dst: d, Par: par, Transform: Transforms[next(len(Transforms))]}
			if i%6 == 5 && (st == "RGBA64" || st == "NRGBA" || st == "RGBA" || st == "NRGBA64") {
				c.InPlace, c.Dst = true, s
			}
			ev.Eval(1)
			k, wh, _ := check(c)
			ev.NT(ev.Hash("big", c))
			if k != "" {
				ev.Violation("transform", k, wh, c)
				break
			}
		}
		ev.Class("big-images", int64(nb))
		// every space's two image functions on a fully opaque picture of a little more than 2^18 pixels, for the two
		// commonest type pairs: size- and opacity-keyed shortcuts have to show themselves here
		no := 0
		for ti, tr := range Transforms {
			if strings.HasPrefix(tr, "custom") {
				continue
			}
			for pi, tp := range [][2]string{{"RGBA64", "RGBA64"}, {"NRGBA", "NRGBA64"}} {
				h := 257 + ti
				w := (1<<18)/h + 2
				s := img.Spec{Type: tp[0], Rect: [4]int{0, 0, w, h}, Parent: [4]int{0, 0, w, h}, Fill: "opaque", Seed: uint64(ti*2+pi) + ev.Seed()}
				d := img.Spec{Type: tp[1], Rect: [4]int{0, 0, w, h}, Parent: [4]int{0, 0, w, h}, Fill: "zero", Seed: 1}
				c := Case{Src: s, Dst: d, Par: []int{1, 4, 16}[(ti+pi)%3], Transform: tr}
				ev.Eval(1)
				no++
				k, wh, _ := check(c)
				ev.NT(ev.Hash("opaque-big", c))
				if k != "" {
					ev.Violation("transform", k, wh, c)
					break
				}
			}
		}
		ev.Class("big-opaque-images", int64(no))
	}
	// (height, parallelism) sweep on narrow images for each of the four loops of TransformImageColor, plus orbit
	// content in place
	{
		var np int64
		swept := false
		for _, cfg := range [][3]string{{"RGBA64", "RGBA64", ""}, {"NRGBA", "RGBA64", ""}, {"RGBA64", "RGBA", ""}, {"RGBA64", "NRGBA", ""}, {"RGBA64", "RGBA64", "inplace"}, {"RGBA", "RGBA", "inplace"}} {
			for h := 1; h <= ev.Pick(70, 300) && !swept; h++ {
				runtime.GOMAXPROCS([]int{origProcs, 3, 1, 5, origProcs, 12}[h%6])
				for p := 1; p <= ev.Pick(34, 100); p++ {
					s := img.Spec{Type: cfg[0], Rect: [4]int{0, 0, 2, h}, Parent: [4]int{0, 0, 2, h}, Fill: []string{"ramp", "orbit-h", "orbit-v"}[(h+p)%3], Seed: 5}
					d := img.Spec{Type: cfg[1], Rect: [4]int{1, 1, 3, 1 + h}, Parent: [4]int{1, 1, 3, 1 + h}, Fill: "ff", Seed: 6}
					c := Case{Src: s, Dst: d, Par: p, Transform: Transforms[(h*3+p)%len(Transforms)]}
					if cfg[2] == "inplace" {
						c.InPlace, c.Dst = true, s
					}
					np++
					if k, wh, _ := check(c); k != "" {
						ev.Violation("transform", k, wh, c)
						swept = true
						break
					}
				}
			}
		}
		ev.Eval(np)
		ev.NTAdd(np)
		runtime.GOMAXPROCS(origProcs)
		ev.Class("height-parallelism-pairs", np)
	}
	banners()
	ev.RapidChecks(ev.Pick(5000, 200000))
	ev.RapidSeed(10)
	rapid.Check(t, func(rt *rapid.T) {
		var c Case
		c.InPlace = rapid.IntRange(0, 5).Draw(rt, "inplace") == 0
		if c.InPlace {
			c.Src = img.Gen(rt, "src", img.GenOpts{Types: dstTypes, AllowWrap: true, TallRows: 40, Orbit: true, Wide: 6000})
			c.Dst = c.Src
		} else {
			c.Src = img.Gen(rt, "src", img.GenOpts{AllowWrap: true, TallRows: 40, Orbit: true, Wide: 6000})
			c.Dst = genDst(rt, c.Src)
		}
		if rapid.IntRange(0, 7).Draw(rt, "canvas") == 0 {
			// two disjoint tiles of one canvas: side by side, one above the other, or diagonal
			w, h := rapid.IntRange(1, 9).Draw(rt, "tilew"), rapid.IntRange(1, 12).Draw(rt, "tileh")
			gx, gy := rapid.IntRange(0, 2).Draw(rt, "gapx"), rapid.IntRange(0, 2).Draw(rt, "gapy")
			x0, y0 := rapid.IntRange(-4, 4).Draw(rt, "cx0"), rapid.IntRange(-4, 4).Draw(rt, "cy0")
			m := rapid.IntRange(0, 2).Draw(rt, "margin")
			c = Case{Canvas: true}
			c.Src = img.Spec{Type: rapid.SampledFrom(allDstTypes).Draw(rt, "canvastype"), PalN: 16, Fill: "prng", Seed: rapid.Uint64().Draw(rt, "cseed")}
			a := [4]int{x0, y0, x0 + w, y0 + h}
			var b [4]int
			switch rapid.IntRange(0, 2).Draw(rt, "arrangement") {
			case 0:
				b = [4]int{x0 + w + gx, y0, x0 + 2*w + gx, y0 + h}
			case 1:
				b = [4]int{x0, y0 + h + gy, x0 + w, y0 + 2*h + gy}
			default:
				b = [4]int{x0 + w + gx, y0 + h + gy, x0 + 2*w + gx, y0 + 2*h + gy}
			}
			c.Src.Parent = [4]int{x0 - m, y0 - m, b[2] + m, b[3] + m}
			if rapid.Bool().Draw(rt, "swaptiles") {
				a, b = b, a
			}
			c.Src.Rect = a
			c.Dst = c.Src
			c.Dst.Rect = b
		}
		rows := c.Src.Rect[3] - c.Src.Rect[1]
		if rapid.IntRange(0, 9).Draw(rt, "afteroutside") == 0 {
			c.After = rapid.IntRange(1, 16).Draw(rt, "outside")
		}
		c.Par = rapid.SampledFrom(parChoices(rows)).Draw(rt, "parallelism")
		c.Transform = rapid.SampledFrom(Transforms).Draw(rt, "transform")
		ev.Eval(1)
		k, w, cl := check(c)
		if len(cl) > 0 {
			ev.NT(ev.Hash("rapid", c))
		}
		for _, x := range cl {
			ev.Class(x, 1)
		}
		ev.Class("src-"+c.Src.Type, 1)
		if ev.SampleN() < 4 {
			ev.Sample(c)
		}
		if k != "" {
			ev.Fail(rt, "transform", k, w, c)
		}
	})
	ev.Eval(140000)
	if msg := manySmall(140000); msg != "" {
		ev.Violation("transform", "many-small-calls", msg, Case{Transform: "many small calls"})
	}
	if ev.Violations() > 0 {
		t.Fail()
	}
}

// parChoices: the stated set {1,2,3,7,16,rows+5} plus parallelism equal to (and adjacent to) the number of rows
func parChoices(rows int) []int {
	c := []int{1, 2, 3, 7, 16, rows + 5, 32, 33, 64, 255, 256, 257, 1000} // also more workers than a pool, a byte or a small table holds
	for _, p := range []int{rows - 1, rows, rows + 1, 4, 8} {
		if p >= 1 {
			c = append(c, p)
		}
	}
	return c
}

var origProcs = runtime.GOMAXPROCS(0)

// banners: few rows, many columns (see C15): a transform may move pixels in fixed-size runs or split wide rows
// between workers.  Every source type x destination type, widths at and around powers of two up to 16385 and one
// seeded width, 1..3 rows, parallelism around the row count, non-zero origins, sub-image destinations, in-place.
func banners() {
	x := ev.Seed()*0x9E3779B97F4A7C15 + 78
	next := func(n int) int {
		x ^= x << 13
		x ^= x >> 7
		x ^= x << 17
		return int(x>>33) % n
	}
	widths := []int{129, 260, 513, 1025, 2049, 4097, 8193, 16385, 71 + next(20000)}
	pars := []int{2, 3, 4, 5, 8, 16, 33, 1}
	xs := []int{40, 2, 0, 63, 300}
	var n int64
	stop := false
	for _, st := range img.Types {
		for _, dtyp := range dstTypes {
			for _, w := range widths {
				for k := 0; k < ev.Pick(1, 12) && !stop; k++ {
					h, par, x0 := 1+next(3), pars[next(len(pars))], xs[next(len(xs))]
					s := img.Spec{Type: st, Ratio: next(6), Rect: [4]int{x0, 1, x0 + w, 1 + h}, Parent: [4]int{x0, 1, x0 + w, 1 + h}, Fill: "prng", Seed: ev.Seed() + uint64(n), PalN: 255}
					dx := next(90) - 20
					d := img.Spec{Type: dtyp, Rect: [4]int{dx, 2, dx + w + next(2), 2 + h}, Parent: [4]int{dx - next(3), 2, dx + w + 4, 3 + h}, Fill: "ramp", Seed: 9, Wrap: next(7) == 0}
					c := Case{Src: s, Dst: d, Par: par, Transform: Transforms[next(len(Transforms))]}
					if next(5) == 0 && (st == "RGBA64" || st == "NRGBA" || st == "RGBA" || st == "NRGBA64") {
						c.InPlace, c.Dst = true, s
					}
					n++
					if kd, wh, _ := check(c); kd != "" {
						ev.Violation("transform", kd, wh, c)
						stop = true
					}
				}
			}
		}
	}
	// rows longer than 2^16 pixels and columns taller than 2^16 rows, one of each per source type
	for ti, st := range img.Types {
		for gi, g := range [][2]int{{65537, 1}, {1, 65537}, {131073, 1}} {
			if stop {
				break
			}
			s := img.Spec{Type: st, Ratio: (ti + gi) % 6, Rect: [4]int{2, 1, 2 + g[0], 1 + g[1]}, Parent: [4]int{2, 1, 2 + g[0], 1 + g[1]}, Fill: "prng", Seed: ev.Seed() + uint64(n), PalN: 255}
			d := img.Spec{Type: allDstTypes[(ti+gi)%len(allDstTypes)], Rect: [4]int{0, 0, g[0], g[1]}, Parent: [4]int{0, 0, g[0], g[1]}, Fill: "ramp", Seed: 9, PalN: 16}
			c := Case{Src: s, Dst: d, Par: []int{1, 3, 16, 257}[(ti+gi)%4], Transform: Transforms[(ti*3+gi)%len(Transforms)]}
			n++
			if kd, wh, _ := check(c); kd != "" {
				ev.Violation("transform", kd, wh, c)
				stop = true
			}
		}
	}
	ev.Eval(n)
	ev.NTAdd(n)
	ev.Class("banners", n)
}
