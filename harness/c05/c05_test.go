// C05 — reported dimensions, bit depth and format equal what a real decoder reports.
package c05

import (
	"bytes"
	"fmt"
	"image/color"
	"image/jpeg"
	"image/png"
	"path/filepath"
	"sort"
	"sync"
	"sync/atomic"
	"testing"

	"golang.org/x/image/webp"
	"pgregory.net/rapid"

	"verif/internal/build"
	"verif/internal/ev"
	"verif/internal/gen"
	"verif/internal/ld"
	"verif/internal/src"
)

func TestMain(m *testing.M) { ev.Main(m, "C05", "exploration") }

type Case struct {
	File gen.File `json:"file"`
	// large files are rebuilt on replay instead of being stored
	LargeFormat string `json:"large_format,omitempty"`
	LargeAt     int    `json:"large_at,omitempty"`
}

var unconfirmed, confirmed int64

// decoderConfig runs the standard decoder; ok=false when it refuses the file.
func decoderConfig(f gen.File) (w, h int, bits16 bool, ok bool) {
	defer func() {
		if recover() != nil {
			ok = false
		}
	}()
	switch f.Format {
	case "PNG":
		c, err := png.DecodeConfig(bytes.NewReader(f.Data))
		if err != nil {
			return 0, 0, false, false
		}
		b16 := c.ColorModel == color.Gray16Model || c.ColorModel == color.RGBA64Model || c.ColorModel == color.NRGBA64Model
		return c.Width, c.Height, b16, true
	case "JPEG":
		c, err := jpeg.DecodeConfig(bytes.NewReader(f.Data))
		if err != nil {
			return 0, 0, false, false
		}
		return c.Width, c.Height, false, true
	default:
		c, err := webp.DecodeConfig(bytes.NewReader(f.Data))
		if err != nil {
			return 0, 0, false, false
		}
		return c.Width, c.Height, false, true
	}
}

func check(f gen.File) (kind, what string) { return checkLevel(f, true) }

// checkLevel: full = also cross-check with the standard decoder and the auto-detecting loader.
func checkLevel(f gen.File, full bool) (kind, what string) {
	names := []string{ld.ForFormat(f.Format), "auto"}
	if !full {
		names = names[:1]
		goto loaders
	}
	// (2) the standard decoder, where it accepts the file, must agree with the generator (else the harness is wrong)
	if w, h, b16, ok := decoderConfig(f); ok {
		atomic.AddInt64(&confirmed, 1)
		if uint32(w) != f.W || uint32(h) != f.H || (f.Format == "PNG" && b16 != (f.Bits == 16)) {
			return "harness", fmt.Sprintf("generator says %dx%d/%d bits, standard decoder says %dx%d 16bit=%v for %s", f.W, f.H, f.Bits, w, h, b16, f.Desc)
		}
	} else {
		atomic.AddInt64(&unconfirmed, 1)
	}
loaders:
	for ni, name := range names {
		o := ld.Run(name, bytes.NewReader(f.Data))
		if full {
			// the same file from a standard reader of another dynamic type, positioned after a container
			// prefix: the reported metadata must be the same
			h := int(ev.Hash(f.Data) % 997)
			kind := src.StdKinds[(h+ni)%len(src.StdKinds)]
			prefix := []int{0, 1, 27, 4096}[(h/7)%4]
			if o2 := ld.RunStd(name, kind, prefix, f.Data, filepath.Join(ev.Root(), "out", "run", "C05")); !ld.Same(o, o2) {
				return f.Format + "/reader-type", fmt.Sprintf("%s loader on a %s positioned after %d prefix bytes: %s; from bytes.Reader at offset 0: %s (%s)", name, kind, prefix, o2, o, f.Desc)
			}
			// ... and from a source that hands over its last bytes together with io.EOF (as decompressors and
			// network bodies do), in buffer-sized or smaller pieces
			s3 := &src.Source{Data: f.Data, FaultAt: -1, DataWithEOF: true, Sizes: [][]int{nil, {4096}, {1000}}[h%3]}
			if o3 := ld.Run(name, s3); !ld.Same(o, o3) {
				return f.Format + "/reader-type", fmt.Sprintf("%s loader on a source returning its last bytes with io.EOF (pieces %v): %s; from bytes.Reader: %s (%s)", name, s3.Sizes, o3, o, f.Desc)
			}
		}
		k := f.Format + "/"
		switch {
		case o.Panic != "":
			return k + "panic", name + " loader panicked: " + o.Panic
		case !o.OK || o.MDNil:
			return k + "rejected", fmt.Sprintf("%s loader rejects well-formed file (%s): %s", name, f.Desc, o.Err)
		case o.Format != f.Format:
			return k + "format", fmt.Sprintf("%s loader reports format %q for %s", name, o.Format, f.Desc)
		case o.W != f.W:
			return k + "width", fmt.Sprintf("%s loader reports width %d (height %d), header says %dx%d (%s)", name, o.W, o.H, f.W, f.H, f.Desc)
		case o.H != f.H:
			return k + "height", fmt.Sprintf("%s loader reports height %d (width %d), header says %dx%d (%s)", name, o.H, o.W, f.W, f.H, f.Desc)
		case o.Bits != f.Bits:
			return k + "bits", fmt.Sprintf("%s loader reports %d bits per component, header says %d (%s)", name, o.Bits, f.Bits, f.Desc)
		}
	}
	return "", ""
}

func nontrivial(f gen.File) bool {
	return f.Pre >= 1 || f.W != f.H || f.W >= 2048 || f.H >= 2048
}

type sweeper struct {
	mu  sync.Mutex
	bad map[string]bool
}

func (s *sweeper) run(f gen.File) { s.runLevel(f, true) }

func (s *sweeper) runLevel(f gen.File, full bool) {
	ev.Eval(1)
	ev.NTAdd(1) // every sweep file is distinct (different field values) and targets a boundary
	k, w := checkLevel(f, full)
	if k == "" {
		return
	}
	s.mu.Lock()
	defer s.mu.Unlock()
	if s.bad[k] {
		return
	}
	s.bad[k] = true
	ev.Violation("dims", k, w, Case{File: f})
}

// field sweeps through direct builder calls
func sweeps() {
	s := &sweeper{bad: map[string]bool{}}
	others14 := []uint32{1, 16383, uint32(ev.Seed()*7919%16383) + 1}
	vals := func(bits uint, min uint32) []uint32 {
		max := uint32(1)<<bits - 1
		if ev.Thorough() && bits <= 16 {
			var v []uint32
			for x := min; x <= max; x++ {
				v = append(v, x)
			}
			return v
		}
		set := map[uint32]bool{min: true, min + 1: true, max: true, max - 1: true}
		for k := uint(0); k < bits; k++ {
			set[1<<k] = true
			if 1<<k > 1 {
				set[1<<k-1] = true
			}
			set[max&^(1<<k)] = true
		}
		x := uint32(ev.Seed()*2654435761 + 12345)
		for i := 0; i < 1000; i++ {
			x = x*1664525 + 1013904223
			set[(x>>8)%(max-min+1)+min] = true
		}
		var v []uint32
		for k := range set {
			if k >= min && k <= max {
				v = append(v, k)
			}
		}
		return v
	}
	// WebP VP8 (14 bit, >= 1), VP8L (14 bit minus one)
	var nt int64
	for _, o := range others14 {
		for _, v := range vals(14, 1) {
			for _, swap := range []bool{false, true} {
				w, h := v, o
				if swap {
					w, h = o, v
				}
				d, _ := build.WebP{Chunks: []build.RIFFChunk{{FourCC: "VP8 ", Data: build.VP8Header(uint16(w), uint16(h), uint8(v&3), uint8(v>>2&3), 8)}}}.Bytes()
				s.run(gen.File{Format: "WebP", Data: d, W: w, H: h, Bits: 8, Desc: fmt.Sprintf("VP8 %dx%d", w, h)})
				d, _ = build.WebP{Chunks: []build.RIFFChunk{{FourCC: "VP8L", Data: build.VP8LHeader(uint16(w-1), uint16(h-1), false)}}}.Bytes()
				s.run(gen.File{Format: "WebP", Data: d, W: w, H: h, Bits: 8, Desc: fmt.Sprintf("VP8L %dx%d", w, h)})
				nt += 2
			}
		}
	}
	ev.Class("sweep-vp8-vp8l", nt)
	// JPEG 16 bit
	n0 := nt
	for _, o := range []uint32{1, 65535, uint32(ev.Seed()*104729%65535) + 1} {
		for _, v := range vals(16, 1) {
			for _, swap := range []bool{false, true} {
				w, h := v, o
				if swap {
					w, h = o, v
				}
				marker := byte(0xC0)
				if v&1 == 1 {
					marker = 0xC2
				}
				j := build.JPEG{Segs: []build.Seg{{Marker: 0xE0, Data: []byte("JFIF\x00")}, {Marker: marker, Data: build.SOF(8, uint16(h), uint16(w), [][3]byte{{1, 0x11, 0}})}}, SOS: []byte{1, 1, 0, 0, 63, 0}, Entropy: []byte{1}}
				d, _ := j.Bytes()
				s.run(gen.File{Format: "JPEG", Data: d, W: w, H: h, Bits: 8, Pre: 1, Desc: fmt.Sprintf("JPEG %dx%d", w, h)})
				nt++
			}
		}
	}
	ev.Class("sweep-jpeg", nt-n0)
	// JPEG whose ICC_PROFILE APP2 chunks are in trouble (numbered from zero, a total of zero, a number above the total,
	// repeated, disagreeing totals, one missing, no payload), before the frame header, after it, or on both sides: a
	// matter for ICCProfile(); the picture is well formed and its frame header says what it says
	n0 = nt
	troubles := map[string][]build.Seg{
		"numbered-from-zero": {build.ICCSeg(0, 2, []byte("ab")), build.ICCSeg(1, 2, []byte("cd"))},
		"total-zero":         {build.ICCSeg(1, 0, []byte("abcd"))},
		"zero-of-zero":       {build.ICCSeg(0, 0, []byte("abcd"))},
		"number-above-total": {build.ICCSeg(3, 2, []byte("ab")), build.ICCSeg(1, 2, []byte("cd"))},
		"repeated":           {build.ICCSeg(1, 2, []byte("ab")), build.ICCSeg(1, 2, []byte("ab")), build.ICCSeg(2, 2, []byte("cd"))},
		"totals-disagree":    {build.ICCSeg(1, 2, []byte("ab")), build.ICCSeg(2, 3, []byte("cd"))},
		"one-missing":        {build.ICCSeg(1, 3, []byte("ab")), build.ICCSeg(3, 3, []byte("cd"))},
		"no-payload":         {build.ICCSeg(1, 1, nil)},
		"header-only":        {{Marker: 0xE2, Data: []byte("ICC_PROFILE\x00")}, {Marker: 0xE2, Data: []byte("ICC_PROFILE\x00\x01")}},
	}
	var tnames []string
	for k := range troubles {
		tnames = append(tnames, k)
	}
	sort.Strings(tnames)
	for ti, name := range tnames {
		tr := troubles[name]
		for where := 0; where < 4; where++ { // all before the frame header, all after, split around it, after it and once more before the scan
			for _, marker := range []byte{0xC0, 0xC2} {
				w, h := uint32(17+ti), uint32(3+where)
				sof := build.Seg{Marker: marker, Data: build.SOF(8, uint16(h), uint16(w), [][3]byte{{1, 0x22, 0}, {2, 0x11, 1}, {3, 0x11, 1}})}
				segs := []build.Seg{{Marker: 0xE0, Data: []byte("JFIF\x00\x01\x02\x00\x00\x01\x00\x01\x00\x00")}}
				pre := 1
				switch where {
				case 0:
					segs = append(append(segs, tr...), sof)
					pre += len(tr)
				case 1:
					segs = append(append(segs, sof), tr...)
				case 2:
					segs = append(append(append(segs, tr[:1]...), sof), tr[1:]...)
					pre++
				default:
					segs = append(append(append(segs, sof), tr...), build.Seg{Marker: 0xDB, Data: build.DQT(0)})
					segs = append(segs, tr...)
				}
				j := build.JPEG{Segs: segs, SOS: []byte{3, 1, 0, 2, 0x11, 3, 0x11, 0, 63, 0}, Entropy: []byte{1}}
				d, _ := j.Bytes()
				s.run(gen.File{Format: "JPEG", Data: d, W: w, H: h, Bits: 8, Pre: pre, Desc: fmt.Sprintf("JPEG SOF%X %dx%d with ICC chunks in trouble (%s), placement %d", marker&0xF, w, h, name, where)})
				nt++
			}
		}
	}
	ev.Class("sweep-jpeg-icc-chunk-trouble", nt-n0)
	// VP8X 24 bit: boundary set in quick, every value (parallel) in thorough
	n0 = nt
	runX := func(w, h uint32) {
		if uint64(w)*uint64(h) > 1<<32-1 {
			return
		}
		full := !ev.Thorough() || (w+h)%61 == 0 // the exhaustive sweep cross-checks decoder + autometa on every 61st file
		d, _ := build.WebP{Chunks: []build.RIFFChunk{{FourCC: "VP8X", Data: build.VP8XHeader(byte(w), w-1, h-1)}, {FourCC: "VP8L", Data: build.VP8LHeader(0, 0, false)}}}.Bytes()
		d[20] &^= 0x20 // no ICC flag
		s.runLevel(gen.File{Format: "WebP", Data: d, W: w, H: h, Bits: 8, Desc: fmt.Sprintf("VP8X %dx%d", w, h)}, full)
	}
	if ev.Thorough() {
		var wg sync.WaitGroup
		var cnt int64
		for blk := 0; blk < 256; blk++ {
			wg.Add(1)
			go func(blk int) {
				defer wg.Done()
				var c int64
				for v := uint32(blk) << 16; v < uint32(blk+1)<<16; v++ {
					for _, o := range []uint32{1, 255} {
						runX(v+1, o)
						runX(o, v+1)
						c += 2
					}
				}
				atomic.AddInt64(&cnt, c)
			}(blk)
		}
		wg.Wait()
		nt += cnt
		ev.Set("exhaustive", true)
		ev.Set("exhaustive_scope", "every value of the 14-bit VP8/VP8L, 16-bit JPEG and 24-bit VP8X dimension fields with the other dimension at 1 / max / a seeded value")
	} else {
		for _, o := range []uint32{1, 256, 1 << 24} {
			for _, v := range vals(24, 1) {
				runX(v+0, o)
				runX(o, v+0)
				nt += 2
			}
			runX(1<<24, o)
		}
	}
	ev.Class("sweep-vp8x", nt-n0)
	// PNG 31 bit: all patterns with <= 3 bits set (+ stratified random in thorough), every type/depth pair
	n0 = nt
	var pats []uint32
	for a := 0; a < 31; a++ {
		pats = append(pats, 1<<uint(a))
		for b := a + 1; b < 31; b++ {
			pats = append(pats, 1<<uint(a)|1<<uint(b))
			if ev.Thorough() {
				for c := b + 1; c < 31; c++ {
					pats = append(pats, 1<<uint(a)|1<<uint(b)|1<<uint(c))
				}
			}
		}
	}
	pats = append(pats, 1<<31-1, 1<<31-2)
	x := uint32(ev.Seed()*40503 + 7)
	for i := 0; i < ev.Pick(2000, 1<<20); i++ {
		x = x*1664525 + 1013904223
		pats = append(pats, (x>>1)|1)
	}
	for i, v := range pats {
		pair := build.LegalPNG[i%len(build.LegalPNG)]
		o := []uint32{1, 1<<31 - 1, 77}[i%3]
		for _, swap := range []bool{false, true} {
			w, h := v, o
			if swap {
				w, h = o, v
			}
			p := build.PNG{W: w, H: h, ColorType: pair[0], Depth: pair[1], Interlace: byte(i & 1), IDAT: []byte{0}}
			if pair[0] == 3 {
				p.Pre = []build.Chunk{{Type: "PLTE", Data: []byte{1, 2, 3}}}
			}
			d, _ := p.Bytes()
			s.run(gen.File{Format: "PNG", Data: d, W: w, H: h, Bits: uint32(pair[1]), Desc: fmt.Sprintf("PNG ct=%d depth=%d %dx%d", pair[0], pair[1], w, h)})
			nt++
		}
	}
	ev.Class("sweep-png", nt-n0)
}

func TestC05(t *testing.T) {
	if ev.Replaying() != nil {
		var c Case
		if err := ev.ReplayCase(&c); err != nil {
			t.Fatal(err)
		}
		if c.LargeFormat != "" {
			c.File = gen.LargeHeader(c.LargeFormat, c.LargeAt)
		}
		if k, w := check(c.File); k != "" {
			c.File.Data = nil
			ev.Fail(t, "dims", k, w, c)
		}
		fmt.Println("REPLAY case passed")
		return
	}
	ev.Rule("rapid grammar-built files: PNG (every legal colour type/bit depth, interlace, 31-bit dimensions boundary-biased, 0-6 ancillary chunks with lengths chosen so later chunk headers straddle 4096*k, optional iCCP), JPEG (SOF0/SOF2, 1/3/4 components with legal sampling factors, 16-bit dimensions, APPn/COM/DQT/DHT/DRI segments of 2..65535 bytes before and after SOF, optional multi-chunk ICC), WebP (VP8 with scale bits, VP8L, VP8X with any flags and 24-bit canvas); files with 1-12 MiB (100 MiB thorough) of ancillary data before the header structures; field sweeps over every dimension field (boundaries, walking bits, 1000 random in quick; every 14/16/24-bit value in thorough). Oracle: the generator's fields, cross-checked by image/png, image/jpeg, x/image/webp DecodeConfig when they accept the file. non-trivial = distinct file with >= 1 structure before the header of interest, width != height, or a dimension >= 2048")
	ev.Assume("harness builders; the standard decoders refuse some legal files (12-bit JPEG, PNG dimension products overflowing, unsupported sampling) - those are counted as decoder_unconfirmed and checked against the written fields only")
	sweeps()
	// megabytes of ancillary data in front of the header structures (the formats put no limit on it)
	{
		ats := []int{1 << 20, 8<<20 + 300, 12 << 20}
		if ev.Thorough() {
			ats = append(ats, 16<<20+5, 32<<20+1, 64<<20, 100<<20)
		}
		for _, at := range ats {
			for _, format := range []string{"PNG", "JPEG", "WebP"} {
				f := gen.LargeHeader(format, at)
				ev.Eval(1)
				ev.NT(ev.Hash("large", format, at))
				if k, w := check(f); k != "" {
					f.Data = nil
					ev.Violation("dims", k, w, Case{File: f, LargeFormat: format, LargeAt: at})
				}
			}
		}
		ev.Class("large-ancillary-data", int64(3*len(ats)))
	}
	// JPEGs whose ICC segments are anomalous (a profile embedded twice, a duplicated chunk, totals that disagree, a
	// chunk number out of range) in front of the frame header: whatever becomes of the profile, the picture's
	// dimensions are still what the frame header says (image/jpeg ignores APP2 altogether)
	{
		prof := build.SimpleProfile(build.TextDesc("anomalous"), 300)
		a, b := prof[:200], prof[200:]
		sof := func(w, h uint16) build.Seg {
			return build.Seg{Marker: 0xC2, Data: build.SOF(8, h, w, [][3]byte{{1, 0x22, 0}, {2, 0x11, 1}, {3, 0x11, 1}})}
		}
		variants := []struct {
			name string
			icc  []build.Seg
		}{
			{"profile embedded twice", []build.Seg{build.ICCSeg(1, 2, a), build.ICCSeg(2, 2, b), build.ICCSeg(1, 2, a), build.ICCSeg(2, 2, b)}},
			{"chunk 1 duplicated", []build.Seg{build.ICCSeg(1, 2, a), build.ICCSeg(1, 2, a), build.ICCSeg(2, 2, b)}},
			{"totals disagree", []build.Seg{build.ICCSeg(1, 2, a), build.ICCSeg(2, 3, b), build.ICCSeg(3, 3, b)}},
			{"chunk number 0, then a good one", []build.Seg{build.ICCSeg(0, 2, a), build.ICCSeg(1, 2, a), build.ICCSeg(2, 2, b)}},
			{"chunk number above total", []build.Seg{build.ICCSeg(3, 2, a), build.ICCSeg(1, 2, a)}},
			{"total 0", []build.Seg{build.ICCSeg(1, 0, a), build.ICCSeg(2, 0, b)}},
			{"incomplete, then a second start", []build.Seg{build.ICCSeg(1, 3, a), build.ICCSeg(1, 2, a), build.ICCSeg(2, 2, b)}},
		}
		var na int64
		for _, v := range variants {
			name, icc := v.name, v.icc
			for _, tail := range [][]build.Seg{nil, {{Marker: 0xFE, Data: []byte("after")}}, {build.ICCSeg(1, 1, prof)}} {
				segs := append(append([]build.Seg{{Marker: 0xE0, Data: []byte("JFIF\x00\x01\x01\x00\x00\x01\x00\x01\x00\x00")}}, icc...), tail...)
				segs = append(segs, sof(640, 481))
				d, m := build.JPEG{Segs: segs, SOS: []byte{3, 1, 0, 2, 0x11, 3, 0x11, 0, 63, 0}, Entropy: []byte{1, 2, 3}}.Bytes()
				f := gen.File{Format: "JPEG", Data: d, Map: m, W: 640, H: 481, Bits: 8, Desc: "JPEG with anomalous ICC segments before the frame header: " + name}
				ev.Eval(1)
				na++
				ev.NT(ev.Hash("icc-anomaly", name, len(tail)))
				if k, w := check(f); k != "" {
					ev.Violation("dims", k, w, Case{File: f})
				}
			}
		}
		ev.Class("jpeg-icc-anomalies", na)
	}
	ev.RapidChecks(ev.Pick(3000, 150000))
	ev.RapidSeed(5)
	var early []gen.File
	rapid.Check(t, func(rt *rapid.T) {
		f := gen.Any(rt, gen.Opts{MaxICC: 20000})
		ev.Eval(1)
		if nontrivial(f) {
			ev.NT(ev.Hash(f.Data))
		}
		ev.Class("rapid-"+f.Format, 1)
		if ev.SampleN() < 5 {
			ev.Sample(map[string]any{"desc": f.Desc, "notes": f.Notes, "bytes": len(f.Data), "head_hex": fmt.Sprintf("%x", f.Data[:min(48, len(f.Data))])})
		}
		if len(early) < 300 && len(f.Data) < 200000 {
			early = append(early, f)
		}
		if k, w := check(f); k != "" {
			ev.Fail(rt, "dims", k, w, Case{File: f})
		}
	})
	// the first 300 files once more, after thousands of other loads (pools, caches and adaptive sizes have had
	// time to fill, evict and grow)
	for _, f := range early {
		ev.Eval(1)
		if k, w := checkLevel(f, false); k != "" {
			ev.Violation("dims", k, "loaded again after many other files: "+w, Case{File: f})
			break
		}
	}
	ev.Set("decoder_confirmed", confirmed)
	ev.Set("decoder_unconfirmed", unconfirmed)
	if ev.Violations() > 0 {
		t.Fail()
	}
}
