// C19 — auto-detection behaves exactly like the matching format-specific loader.
package c19

import (
	"bytes"
	"fmt"
	"io"
	"os"
	"path/filepath"
	"strings"
	"testing"

	"pgregory.net/rapid"

	"verif/internal/build"
	"verif/internal/ev"
	"verif/internal/gen"
	"verif/internal/ld"
	"verif/internal/mut"
	"verif/internal/seeds"
	"verif/internal/src"
)

func TestMain(m *testing.M) { ev.Main(m, "C19", "exploration") }

type Case struct {
	Desc  string `json:"desc"`
	Data  []byte `json:"data"`
	Sizes []int  `json:"sizes"`
	// Std != "": autometa reads from a standard-library reader of that dynamic type positioned after Prefix
	// unrelated bytes (the reference loaders always read the bare input)
	Seekable bool   `json:"seekable,omitempty"` // the short-reading source also implements io.Seeker
	Std      string `json:"std,omitempty"`
	Prefix   int    `json:"prefix,omitempty"`
	// how the source ends and stutters (compressed and network streams hand over their last bytes together with
	// io.EOF; some sources answer a read with nothing now and then)
	DataWithEOF bool `json:"data_with_eof,omitempty"`
	ZeroEvery   int  `json:"zero_every,omitempty"`
	// Chain > 0: the input reaches autometa as the stream an EARLIER autometa.Load returned (for a stream that holds
	// First followed by Data), after all of First has been read from it: the second image of a stream, the payload
	// behind a header.  The reference loaders see Data alone.
	Chain bool   `json:"chain,omitempty"`
	First []byte `json:"first,omitempty"`
}

func check(c Case) (kind, what string, nt bool) {
	// reference: the first specific loader that succeeds on the complete input, each from the first byte
	var ref *ld.Outcome
	refName := ""
	for _, name := range []string{"png", "jpeg", "webp"} {
		s := &src.Source{Data: c.Data, FaultAt: -1}
		o := ld.Run(name, s)
		if o.Panic != "" {
			return "", "", false // a panicking specific loader is C07/C09's finding, not a disagreement
		}
		if o.OK {
			ref, refName = &o, name
			break
		}
		if s.Pos > 8 {
			nt = true
		}
	}
	if refName != "" && refName != "png" {
		nt = true
	}
	s := &src.Source{Data: c.Data, FaultAt: -1, Sizes: c.Sizes, DataWithEOF: c.DataWithEOF, ZeroEvery: c.ZeroEvery}
	var a ld.Outcome
	if c.Chain {
		whole := append(append([]byte(nil), c.First...), c.Data...)
		first := ld.Run("auto", &src.Source{Data: whole, FaultAt: -1, Sizes: c.Sizes, DataWithEOF: c.DataWithEOF})
		if first.Panic != "" || first.Stream == nil {
			return "panic", "first load of a chain: " + first.Panic + " / nil stream", true
		}
		head := make([]byte, len(c.First))
		if n, err := io.ReadFull(first.Stream, head); err != nil || !bytes.Equal(head[:n], c.First) {
			return "stream", fmt.Sprintf("the stream of the first load of a chain does not start with the input (read %d of %d, err %v)", n, len(c.First), err), true
		}
		a = ld.Run("auto", first.Stream)
	} else if c.Std != "" {
		r, _, cleanup := src.Std(c.Std, c.Prefix, c.Data, filepath.Join(ev.Root(), "out", "run", "C19"))
		defer cleanup()
		a = ld.Run("auto", r)
	} else if c.Seekable {
		a = ld.Run("auto", src.Seekable{Source: s})
	} else {
		a = ld.Run("auto", s)
	}
	if a.Panic != "" {
		return "panic", a.Panic, nt
	}
	if ref == nil {
		if a.OK || !a.MDNil {
			return "accepts-unrecognised", fmt.Sprintf("no specific loader accepts the input but autometa returned %s (%s)", a, c.Desc), nt
		}
	} else {
		if !a.OK || a.MDNil {
			return "rejects-" + refName, fmt.Sprintf("%s loader accepts the input (%s) but autometa fails: %s (%s)", refName, *ref, a.Err, c.Desc), nt
		}
		if !ld.Same(*ref, a) || ref.ICCErr != a.ICCErr {
			return "differs-" + refName, fmt.Sprintf("autometa %s; %s loader %s (%s)", a, refName, *ref, c.Desc), nt
		}
	}
	// the matching specific loader given THE SAME KIND OF READER as autometa was: a loader that treats one reader
	// type specially must still agree with what it does on the bare input
	if c.Std != "" && refName != "" {
		r, _, cleanup := src.Std(c.Std, c.Prefix, c.Data, filepath.Join(ev.Root(), "out", "run", "C19"))
		o := ld.Run(refName, r)
		cleanup()
		if o.Panic != "" {
			return "panic", o.Panic, nt
		}
		if !ld.Same(*ref, o) {
			return "reader-type-" + refName, fmt.Sprintf("%s loader reading from a %s: %s; from the bare input: %s; autometa from a %s: %s (%s)", refName, c.Std, o, *ref, c.Std, a, c.Desc), nt
		}
	}
	if a.Stream == nil {
		return "nil-stream", "autometa returned a nil stream", nt
	}
	var got []byte
	var derr error
	if pn, msg := ev.Guard(func() {
		// how the caller drains the stream is the caller's business: io.ReadAll, io.Copy (which prefers the
		// stream's own WriteTo when it has one), or reads of a few bytes at a time
		switch (len(c.Data) + len(c.Sizes) + c.Prefix) % 3 {
		case 0:
			got, derr = io.ReadAll(a.Stream)
		case 1:
			var buf bytes.Buffer
			_, derr = io.Copy(&buf, a.Stream)
			got = buf.Bytes()
		default:
			// a first small Read, then io.Copy for the rest
			first := make([]byte, 5)
			n, err := io.ReadFull(a.Stream, first)
			got = append(got, first[:n]...)
			if err == nil {
				var buf bytes.Buffer
				_, derr = io.Copy(&buf, a.Stream)
				got = append(got, buf.Bytes()...)
			} else if err != io.EOF && err != io.ErrUnexpectedEOF {
				derr = err
			}
		}
	}); pn {
		return "panic", "reading autometa's stream: " + msg, nt
	}
	if derr != nil || !bytes.Equal(got, c.Data) {
		return "stream", fmt.Sprintf("autometa's stream yields %d bytes (err %v), input has %d (%s)", len(got), derr, len(c.Data), c.Desc), nt
	}
	return "", "", nt
}

func polyglot(rt *rapid.T, all []seeds.Seed) ([]byte, string) {
	a := all[rapid.IntRange(0, len(all)-1).Draw(rt, "pa")]
	b := all[rapid.IntRange(0, len(all)-1).Draw(rt, "pb")]
	ad, bd := a.Data, b.Data
	if len(ad) > 20000 {
		ad = ad[:20000]
	}
	if len(bd) > 20000 {
		bd = bd[:20000]
	}
	switch rapid.IntRange(0, 4).Draw(rt, "polykind") {
	case 0: // signature of a + body of b
		n := rapid.SampledFrom([]int{2, 4, 8, 12, 16, 33}).Draw(rt, "siglen")
		if n > len(ad) {
			n = len(ad)
		}
		return append(append([]byte(nil), ad[:n]...), bd...), fmt.Sprintf("first %d bytes of %s + all of %s", n, a.Name, b.Name)
	case 1: // RIFF/WEBP wrapper around another file
		d := []byte("RIFF")
		n := uint32(len(bd) + 4)
		d = append(d, byte(n), byte(n>>8), byte(n>>16), byte(n>>24))
		d = append(d, "WEBP"...)
		return append(d, bd...), "RIFF/WEBP header wrapping " + b.Name
	case 2: // PNG signature + huge first chunk so the PNG loader drains the source
		d := append([]byte(nil), build.PNGSig...)
		d = append(d, 0xFF, 0xFF, 0xFF, 0xF0, 't', 'E', 'X', 't')
		return append(d, bd...), "PNG signature + chunk of declared length 4 GiB + " + b.Name
	case 3: // JPEG SOI + COM segments, then another file
		d := []byte{0xFF, 0xD8, 0xFF, 0xFE, 0, 6, 'a', 'b', 'c', 'd'}
		return append(d, bd...), "JPEG SOI + COM + " + b.Name
	default: // b appended after the complete a
		return append(append([]byte(nil), ad...), bd...), a.Name + " followed by " + b.Name
	}
}

// volume: the same files again and again until more than 1 GiB (thorough: more than 4 GiB, past 2^32 bytes) has
// gone through the auto loader in this process - byte counters, budgets and statistics that outlive a call
func volume(target int64, bad map[string]bool) {
	var files []gen.File
	for _, format := range []string{"JPEG", "PNG", "WebP"} {
		files = append(files, gen.LargeHeader(format, 4<<20))
	}
	var total int64
	var first [3]string
	n := 0
	for total < target && ev.Violations() == 0 {
		f := files[n%3]
		s := &src.Source{Data: f.Data, FaultAt: -1}
		a := ld.Run("auto", s)
		total += s.Pos
		sig := fmt.Sprintf("%v %s %dx%d %d icc=%d %q", a.OK, a.Format, a.W, a.H, a.Bits, a.ICCLen, a.Panic)
		if n < 3 {
			first[n] = sig
			c := Case{Desc: f.Desc, Data: f.Data}
			if k, w, _ := check(c); k != "" && !bad[k] {
				bad[k] = true
				c.Data = nil
				ev.Violation("auto", k, w, c)
			}
		} else if sig != first[n%3] || !a.OK {
			ev.Violation("auto", "volume", fmt.Sprintf("after %d MiB had passed through autometa.Load in this process, load number %d of the same %s file gives %s; the first gave %s", total>>20, n+1, f.Format, sig, first[n%3]),
				Case{Desc: fmt.Sprintf("volume: load %d of %s", n+1, f.Desc)})
		}
		n++
	}
	ev.Eval(int64(n))
	ev.Class("volume-loads", int64(n))
	ev.Set("volume_mib", total>>20)
}

func TestC19(t *testing.T) {
	if ev.Replaying() != nil {
		var c Case
		if err := ev.ReplayCase(&c); err != nil {
			t.Fatal(err)
		}
		if strings.HasPrefix(c.Desc, "volume:") {
			volume(13500<<20, map[string]bool{})
			if ev.Violations() > 0 {
				t.Fail()
			}
			return
		}
		if k, w, _ := check(c); k != "" {
			ev.Fail(t, "auto", k, w, c)
		}
		fmt.Println("REPLAY case passed")
		return
	}
	ev.Rule("inputs: rapid-generated valid files of the three formats (C05/C06 grammar), rapid structure-aware mutations and truncations of those and of the repository/built/hostile seeds, polyglots (signature of one format + body of another, RIFF/WEBP header wrapping another file, PNG signature + 4 GiB chunk so the PNG loader drains the source, JPEG SOI+COM followed by another file, concatenations), random bytes, empty input; a sixth of the generated inputs reach autometa as the rest of the stream an earlier autometa.Load returned; three 4 MiB-header files loaded over and over until > 1 GiB (thorough > 13 GiB, more than 2^32 bytes per loader) has passed through autometa in the process; the auto loader additionally under short-read schedules, with the last bytes arriving together with EOF, and with reads that return nothing now and then. Oracle: the first of pngmeta/jpegmeta/webpmeta.Load that succeeds on the complete input (differential, incl. ICC error text), else (nil, error); the stream always replays the input; when autometa reads from a standard-library reader type, the matching specific loader is also given that reader type and must agree with itself on the bare input. non-trivial = distinct input on which an earlier candidate consumed > 8 bytes before failing, or which a non-first loader accepts")
	ev.Assume("both sides are prism code on the same bytes; independence of the specific loaders comes from C05/C06")
	all := append(seeds.All(), seeds.Hostile()...)
	bad := map[string]bool{}
	for _, sd := range all {
		d := sd.Data
		for si, sizes := range [][]int{nil, {1}, {4097}, nil, nil, nil, {4096}, {7}} {
			c := Case{Desc: sd.Name, Data: d, Sizes: sizes}
			if si == 3 || si == 4 {
				c.Std, c.Prefix = src.StdKinds[(len(d)+si)%len(src.StdKinds)], []int{27, 4096}[si-3]
			}
			if si >= 5 {
				c.DataWithEOF = true // the last bytes arrive together with io.EOF
				if si == 7 {
					c.ZeroEvery = 3
				}
			}
			ev.Eval(1)
			k, w, nt := check(c)
			if nt {
				ev.NT(ev.Hash(d, sizes))
			}
			if k != "" && !bad[k] {
				bad[k] = true
				ev.Violation("auto", k, w, c)
			}
		}
	}
	// the hand-built edge files through every standard reader type (they are tiny)
	for _, sd := range seeds.Hostile() {
		for ki, kind := range src.StdKinds {
			c := Case{Desc: sd.Name, Data: sd.Data, Std: kind, Prefix: []int{0, 27}[ki%2]}
			ev.Eval(1)
			k, w, _ := check(c)
			if k != "" && !bad[k] {
				bad[k] = true
				ev.Violation("auto", k, w, c)
			}
		}
	}
	ev.Class("seeds", int64(len(all)*3))
	// large headers: metadata that completes only after 64 KiB / 1 MiB / 2 MiB / 4 MiB (16, 64 MiB in thorough)
	ths := []int{1 << 16, 1 << 20, 2 << 20, 4 << 20}
	if ev.Thorough() {
		ths = append(ths, 16<<20, 64<<20)
	}
	for _, format := range []string{"PNG", "JPEG", "WebP"} {
		for _, th := range ths {
			for _, d := range []int{-300, 300} {
				f := gen.LargeHeader(format, th+d)
				c := Case{Desc: f.Desc, Data: f.Data}
				ev.Eval(1)
				k, w, _ := check(c)
				ev.NT(ev.Hash("large", format, th, d))
				if k != "" && !bad[k] {
					bad[k] = true
					c.Data = nil // the replay rebuilds it from Desc-less parameters: keep the file out of the JSON if huge
					if len(f.Data) <= 8<<20 {
						c.Data = f.Data
					}
					ev.Violation("auto", k, w, c)
				}
			}
		}
	}
	ev.Class("large-header", int64(3*len(ths)*2))
	// quick: > 1 GiB in total; thorough (once, not in every shard): > 13 GiB, so that each of the three loaders has
	// seen more than 2^32 bytes
	vol := int64(1100) << 20
	if sfx := os.Getenv("VERIF_SHARD_SUFFIX"); ev.Thorough() && (sfx == "" || sfx == ".shard0") {
		vol = 13500 << 20
	}
	volume(vol, bad)
	otherEnds := mut.Ends(all[4].Map, len(all[4].Data))
	ev.RapidChecks(ev.Pick(5000, 200000))
	ev.RapidSeed(19)
	rapid.Check(t, func(rt *rapid.T) {
		var c Case
		class := rapid.SampledFrom([]string{"valid", "valid", "mutated", "mutated-seed", "truncated", "polyglot", "polyglot", "random"}).Draw(rt, "class")
		switch class {
		case "valid", "mutated", "truncated":
			f := gen.Any(rt, gen.Opts{MaxICC: 9000})
			c.Data, c.Desc = f.Data, f.Desc
			if class == "mutated" {
				ops := mut.Gen(rt, f.Data, f.Map, len(all[4].Data), otherEnds, 3)
				c.Data = mut.Apply(f.Data, f.Map, ops, all[4].Data)
				c.Desc += fmt.Sprintf(" mutated %v", ops)
			}
			if class == "truncated" {
				c.Data = f.Data[:rapid.IntRange(0, len(f.Data)).Draw(rt, "cut")]
			}
		case "mutated-seed":
			sd := all[rapid.IntRange(0, len(all)-1).Draw(rt, "seed")]
			d := sd.Data
			if len(d) > 30000 {
				d = d[:30000]
			}
			ops := mut.Gen(rt, d, sd.Map, len(all[4].Data), otherEnds, 3)
			c.Data = mut.Apply(d, sd.Map, ops, all[4].Data)
			c.Desc = fmt.Sprintf("%s mutated %v", sd.Name, ops)
		case "polyglot":
			c.Data, c.Desc = polyglot(rt, all)
		default:
			c.Data = rapid.SliceOfN(rapid.Byte(), 0, 64).Draw(rt, "random")
			c.Desc = "random bytes"
		}
		if class != "random" && len(c.Data) < 200000 && rapid.IntRange(0, 5).Draw(rt, "chained") == 0 {
			// preceded in its stream by another file, or by a few bytes of some header
			c.Chain = true
			if rapid.Bool().Draw(rt, "chainfile") {
				sd := all[rapid.IntRange(0, len(all)-1).Draw(rt, "chainseed")]
				c.First = sd.Data
				if len(c.First) > 20000 {
					c.First = c.First[:20000]
				}
			} else {
				c.First = rapid.SliceOfN(rapid.Byte(), 1, 40).Draw(rt, "chainhead")
			}
			c.Desc += fmt.Sprintf(" (second in a stream, after %d other bytes)", len(c.First))
		}
		if rapid.Bool().Draw(rt, "short") {
			if rapid.IntRange(0, 3).Draw(rt, "shortsizes") > 0 {
				c.Sizes = rapid.SliceOfN(rapid.IntRange(1, 5000), 1, 4).Draw(rt, "sizes")
			}
			c.Seekable = rapid.Bool().Draw(rt, "seekable")
			c.DataWithEOF = rapid.Bool().Draw(rt, "dataeof")
			if rapid.IntRange(0, 3).Draw(rt, "zeroreads") == 0 {
				c.ZeroEvery = rapid.SampledFrom([]int{2, 3, 7}).Draw(rt, "zeroevery")
			}
		} else if rapid.Bool().Draw(rt, "stdreader") {
			c.Std = rapid.SampledFrom(src.StdKinds).Draw(rt, "stdkind")
			c.Prefix = rapid.SampledFrom([]int{0, 1, 27, 100, 4096}).Draw(rt, "prefix")
		}
		ev.Eval(1)
		k, w, nt := check(c)
		if nt {
			ev.NT(ev.Hash(c.Data, c.Sizes))
		}
		ev.Class(class, 1)
		if ev.SampleN() < 6 && class == "polyglot" {
			ev.Sample(map[string]any{"desc": c.Desc, "bytes": len(c.Data), "sizes": c.Sizes})
		}
		if k != "" {
			ev.Fail(rt, "auto", k, w, c)
		}
	})
	if ev.Violations() > 0 {
		t.Fail()
	}
}
