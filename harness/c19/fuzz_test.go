package c19

import (
	"testing"

	"verif/internal/ev"
	"verif/internal/seeds"
)

// FuzzAuto: native coverage-guided target (thorough tier) for the autometa differential oracle.
func FuzzAuto(f *testing.F) {
	for _, sd := range append(seeds.All(), seeds.Hostile()...) {
		if len(sd.Data) > 30000 {
			sd.Data = sd.Data[:30000]
		}
		f.Add(sd.Data, uint16(0))
		f.Add(sd.Data, uint16(3))
	}
	f.Fuzz(func(t *testing.T, data []byte, size uint16) {
		if len(data) > 1<<18 {
			return
		}
		c := Case{Desc: "native fuzzing input", Data: data}
		if size != 0 {
			c.Sizes = []int{int(size)}
		}
		if k, w, _ := check(c); k != "" {
			if !ev.Violation("auto", "fuzz/"+k, w, c) {
				t.Fatalf("VIOLATION %s: %s", k, w)
			}
		}
	})
}
