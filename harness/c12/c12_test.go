// C12 — chromatic adaptation maps white to white and composes consistently.
package c12

import (
	"fmt"
	"math"
	"sync"
	"testing"

	"github.com/mandykoh/prism/ciexyy"
	"github.com/mandykoh/prism/ciexyz"
	"github.com/mandykoh/prism/matrix"
	"pgregory.net/rapid"

	"verif/internal/ev"
	"verif/internal/ref"
)

func TestMain(m *testing.M) { ev.Main(m, "C12", "exploration") }

type XY [2]float32

type Case struct {
	A XY         `json:"a"`
	B XY         `json:"b"`
	C XY         `json:"c"`
	L [3]float32 `json:"lum"` // luminance Y of the three whites (0 means 1)
	// XYZ, when set, gives the three whites directly as XYZ triples (constants that occur in practice, e.g. the
	// ICC PCS illuminant as encoded in s15Fixed16); the xyY-constructor checks are skipped for such cases
	XYZ *[3][3]float32 `json:"xyz,omitempty"`
	V   [3]float32     `json:"v"` // colour for linearity
	// After > 0: the case directly follows one request outside the property's domain (a white with a zero, negative
	// or non-finite component, a chromaticity with y = 0; number After-1 of the list in outside()), whose answer
	// is ignored
	After int `json:"after,omitempty"`
}

func outside(i int) {
	nan, inf := float32(math.NaN()), float32(math.Inf(1))
	ws := []ciexyz.Color{{}, {X: nan, Y: 1, Z: 1}, {X: 0.9, Y: 0, Z: 1}, {X: inf, Y: 1, Z: 1}, {X: -0.9, Y: 1, Z: 0.8}, {X: 1, Y: 1, Z: 0}, {X: 3e38, Y: 3e38, Z: 3e38}, {X: 1e-45, Y: 1e-45, Z: 1e-45}}
	cs := []ciexyy.Color{{X: 0.3, Y: 0, YY: 1}, {X: nan, Y: 0.3, YY: 1}, {X: 0.3, Y: 0.3, YY: 0}, {X: 0, Y: 0, YY: 0}, {X: 0.7, Y: 0.7, YY: 1}, {X: 0.3, Y: 0.3, YY: inf}}
	ev.Guard(func() {
		a := ciexyz.AdaptBetweenXYZWhitePoints(ws[i%len(ws)], ciexyz.D65)
		a.Apply(ciexyz.Color{X: 0.2, Y: 0.3, Z: 0.4})
		ciexyz.AdaptBetweenXYZWhitePoints(ciexyz.D50, ws[(i/2)%len(ws)])
	})
	ev.Guard(func() {
		ciexyz.AdaptBetweenXYYWhitePoints(cs[i%len(cs)], ciexyy.D50).Apply(ciexyz.Color{X: nan, Y: 1, Z: inf})
		ciexyz.AdaptBetweenXYYWhitePoints(ciexyy.D65, cs[(i/3)%len(cs)])
	})
}

func (c Case) lum(i int) float32 {
	if c.L[i] == 0 {
		return 1
	}
	return c.L[i]
}

var table = map[string]XY{
	"A": {0.44757, 0.40745}, "B": {0.34842, 0.35161}, "C": {0.31006, 0.31616}, "D50": {0.34567, 0.35850},
	"D55": {0.33242, 0.34743}, "D65": {0.31271, 0.32902}, "D75": {0.29902, 0.31485}, "E": {1.0 / 3, 1.0 / 3},
	"F2": {0.37208, 0.37529}, "F7": {0.31292, 0.32933}, "F11": {0.38052, 0.37713},
}

func toRef(m matrix.Matrix3) ref.M3 {
	var r ref.M3
	for c := 0; c < 3; c++ {
		for rr := 0; rr < 3; rr++ {
			r[rr][c] = m[c][rr]
		}
	}
	return r
}

// exact float64 XYZ (Y=1) of a float32 chromaticity
func xyzExact(w XY) ref.V3 { return xyzExactL(w, 1) }

func xyzExactL(w XY, l float32) ref.V3 {
	return ref.XYZOf(ref.XY{X: float64(w[0]), Y: float64(w[1])}, float64(l))
}

func f32(v ref.V3) ciexyz.Color {
	return ciexyz.Color{X: float32(v[0]), Y: float32(v[1]), Z: float32(v[2])}
}
func f64(c ciexyz.Color) ref.V3 { return ref.V3{float64(c.X), float64(c.Y), float64(c.Z)} }

// valid: every Bradford cone response is at least 0.02*Y away from zero (either sign: the sharpened Bradford
// space gives slightly negative responses for saturated but physically realisable whites, and the adaptation
// is well defined for them; only a response of ~0 makes the ratio meaningless).  Tolerances scale with the
// conditioning factor, so the previously excluded corner of the [0.2,0.5]^2 square is now covered.
func valid(w XY) bool {
	c := ref.BradfordFwd.MulV(xyzExact(w))
	return math.Abs(c[0]) >= 0.02 && math.Abs(c[1]) >= 0.02 && math.Abs(c[2]) >= 0.02
}

// conditioning factor of the cone response for white v
func condOf(v ref.V3) float64 {
	c := 1.0
	r := ref.BradfordFwd.MulV(v)
	for i := 0; i < 3; i++ {
		s := 0.0
		for j := 0; j < 3; j++ {
			s += math.Abs(ref.BradfordFwd[i][j] * v[j])
		}
		if q := s / math.Abs(r[i]); q > c {
			c = q
		}
	}
	return c
}

func maxAbsDiff(a, b ref.M3) (d float64, i, j int) {
	for r := 0; r < 3; r++ {
		for c := 0; c < 3; c++ {
			if x := math.Abs(a[r][c] - b[r][c]); x > d || math.IsNaN(x) {
				d, i, j = x, r, c
				if math.IsNaN(x) {
					return math.Inf(1), r, c
				}
			}
		}
	}
	return
}

func xyY(w XY) ciexyy.Color { return ciexyy.Color{X: w[0], Y: w[1], YY: 1} }

func xyYL(w XY, l float32) ciexyy.Color { return ciexyy.Color{X: w[0], Y: w[1], YY: l} }

func check(c Case) (kind, what string) {
	if c.After > 0 {
		outside(c.After - 1)
	}
	var kindOut, whatOut string
	pn, msg := ev.Guard(func() { kindOut, whatOut = checkInner(c) })
	if pn {
		return "panic", msg
	}
	return kindOut, whatOut
}

func checkInner(c Case) (kind, what string) {
	// float32 whites supplied by the harness (float64 conversion, rounded)
	A32, B32, C32 := f32(xyzExactL(c.A, c.lum(0))), f32(xyzExactL(c.B, c.lum(1))), f32(xyzExactL(c.C, c.lum(2)))
	if c.XYZ != nil {
		A32 = ciexyz.Color{X: c.XYZ[0][0], Y: c.XYZ[0][1], Z: c.XYZ[0][2]}
		B32 = ciexyz.Color{X: c.XYZ[1][0], Y: c.XYZ[1][1], Z: c.XYZ[1][2]}
		C32 = ciexyz.Color{X: c.XYZ[2][0], Y: c.XYZ[2][1], Z: c.XYZ[2][2]}
	}
	A, B, Cw := f64(A32), f64(B32), f64(C32)
	cAB := condOf(A) + condOf(B)
	ab := toRef(matrix.Matrix3(ciexyz.AdaptBetweenXYZWhitePoints(A32, B32)))
	want := ref.Bradford(A, B)
	tolM := 1e-10 * (1 + want.NormInf()) * cAB
	// (i) equals independent Bradford
	if d, i, j := maxAbsDiff(ab, want); !(d <= tolM) {
		return "bradford", fmt.Sprintf("adaptation %v->%v entry [%d][%d] = %.12g, independent Bradford %.12g (|diff| %.3g > %.3g)", c.A, c.B, i, j, ab[i][j], want[i][j], d, tolM)
	}
	// (ii) white -> white
	adAB := ciexyz.AdaptBetweenXYZWhitePoints(A32, B32)
	got := f64(adAB.Apply(A32))
	for i := 0; i < 3; i++ {
		if !(math.Abs(got[i]-B[i]) <= 1e-6*math.Max(1, math.Abs(B[i]))) {
			return "white", fmt.Sprintf("adaptation %v->%v maps source white to %v, destination white is %v", c.A, c.B, got, B)
		}
	}
	// (iii) linearity: Apply(v) == M*v within float32 rounding
	v := ref.V3{float64(c.V[0]), float64(c.V[1]), float64(c.V[2])}
	gv := f64(adAB.Apply(ciexyz.Color{X: c.V[0], Y: c.V[1], Z: c.V[2]}))
	wv := want.MulV(v)
	for i := 0; i < 3; i++ {
		mag := 0.0
		for j := 0; j < 3; j++ {
			mag += math.Abs(want[i][j] * v[j])
		}
		tol := 1.2e-7*math.Max(mag, math.Abs(wv[i])) + tolM*(math.Abs(v[0])+math.Abs(v[1])+math.Abs(v[2])) + 1e-30
		if !(math.Abs(gv[i]-wv[i]) <= tol) {
			return "linear", fmt.Sprintf("Apply(%v) component %d = %.9g, M*v = %.9g", c.V, i, gv[i], wv[i])
		}
	}
	// (iv) identity
	aa := toRef(matrix.Matrix3(ciexyz.AdaptBetweenXYZWhitePoints(A32, A32)))
	if d, i, j := maxAbsDiff(aa, ref.Identity()); !(d <= 1e-12*condOf(A)) {
		return "identity", fmt.Sprintf("adaptation %v->%v entry [%d][%d] = %.15g, identity expected", c.A, c.A, i, j, aa[i][j])
	}
	iv := ciexyz.AdaptBetweenXYZWhitePoints(A32, A32).Apply(ciexyz.Color{X: c.V[0], Y: c.V[1], Z: c.V[2]})
	for i, p := range [3][2]float32{{iv.X, c.V[0]}, {iv.Y, c.V[1]}, {iv.Z, c.V[2]}} {
		if !(math.Abs(float64(p[0])-float64(p[1])) <= 1.2e-7*math.Abs(float64(p[1]))+1e-12*l1(v)+1e-38) {
			return "identity-apply", fmt.Sprintf("A->A Apply(%v) component %d = %.9g", c.V, i, p[0])
		}
	}
	// (v) inverse and composition
	ba := toRef(matrix.Matrix3(ciexyz.AdaptBetweenXYZWhitePoints(B32, A32)))
	bc := toRef(matrix.Matrix3(ciexyz.AdaptBetweenXYZWhitePoints(B32, C32)))
	ac := toRef(matrix.Matrix3(ciexyz.AdaptBetweenXYZWhitePoints(A32, C32)))
	cAll := cAB + condOf(Cw)
	if d, i, j := maxAbsDiff(ba.Mul(ab), ref.Identity()); !(d <= 1e-10*(1+ab.NormInf()*ba.NormInf())*cAll) {
		return "inverse", fmt.Sprintf("(B->A)(A->B) entry [%d][%d] off identity by %.3g for A=%v B=%v", i, j, d, c.A, c.B)
	}
	if d, i, j := maxAbsDiff(bc.Mul(ab), ac); !(d <= 1e-10*(1+bc.NormInf()*ab.NormInf())*cAll) {
		return "compose", fmt.Sprintf("(B->C)(A->B) differs from A->C at [%d][%d] by %.3g for A=%v B=%v C=%v", i, j, d, c.A, c.B, c.C)
	}
	if c.XYZ != nil {
		return "", ""
	}
	// (vi) xyY constructor
	xy := toRef(matrix.Matrix3(ciexyz.AdaptBetweenXYYWhitePoints(xyYL(c.A, c.lum(0)), xyYL(c.B, c.lum(1)))))
	viaLib := toRef(matrix.Matrix3(ciexyz.AdaptBetweenXYZWhitePoints(ciexyz.ColorFromXYY(xyYL(c.A, c.lum(0))), ciexyz.ColorFromXYY(xyYL(c.B, c.lum(1))))))
	if d, i, j := maxAbsDiff(xy, viaLib); !(d <= 1e-12*(1+viaLib.NormInf())) {
		return "xyy-vs-xyz", fmt.Sprintf("xyY constructor and XYZ constructor (fed ColorFromXYY) differ at [%d][%d] by %.3g for A=%v B=%v", i, j, d, c.A, c.B)
	}
	// the xyY-constructed adaptation maps the source white onto the destination white
	adXY := ciexyz.AdaptBetweenXYYWhitePoints(xyYL(c.A, c.lum(0)), xyYL(c.B, c.lum(1)))
	gotW := f64(adXY.Apply(ciexyz.ColorFromXYY(xyYL(c.A, c.lum(0)))))
	wantW := f64(ciexyz.ColorFromXYY(xyYL(c.B, c.lum(1))))
	for i := 0; i < 3; i++ {
		if !(math.Abs(gotW[i]-wantW[i]) <= 1e-6*math.Max(1, math.Abs(wantW[i]))) {
			return "xyy-white", fmt.Sprintf("xyY adaptation %v(Y=%g)->%v(Y=%g) maps the source white to %v, destination white is %v", c.A, c.lum(0), c.B, c.lum(1), gotW, wantW)
		}
	}
	// against the reference at the exact whites, with a finite-difference forward error bound for the
	// library's float32 xyY->XYZ conversion
	Ae, Be := xyzExactL(c.A, c.lum(0)), xyzExactL(c.B, c.lum(1))
	exact := ref.Bradford(Ae, Be)
	const u = 1.0 / (1 << 24)
	delta := func(w ref.V3, y float64) ref.V3 {
		return ref.V3{4 * u * math.Abs(w[0]), 0, 4*u*math.Abs(w[2]) + 3*u*math.Abs(w[1])/y}
	}
	dA, dB := delta(Ae, float64(c.A[1])), delta(Be, float64(c.B[1]))
	var tol ref.M3
	for k := 0; k < 3; k++ {
		if k == 1 {
			continue
		}
		pa, pb := Ae, Be
		pa[k] += dA[k]
		pb[k] += dB[k]
		ma, mb := ref.Bradford(pa, Be), ref.Bradford(Ae, pb)
		for i := 0; i < 3; i++ {
			for j := 0; j < 3; j++ {
				tol[i][j] += 2 * (math.Abs(ma[i][j]-exact[i][j]) + math.Abs(mb[i][j]-exact[i][j]))
			}
		}
	}
	for i := 0; i < 3; i++ {
		for j := 0; j < 3; j++ {
			if !(math.Abs(xy[i][j]-exact[i][j]) <= tol[i][j]+1e-9) {
				return "xyy-bradford", fmt.Sprintf("xyY adaptation %v->%v entry [%d][%d] = %.10g, independent Bradford at the exact whites %.10g (|diff| %.3g > bound %.3g)", c.A, c.B, i, j, xy[i][j], exact[i][j], math.Abs(xy[i][j]-exact[i][j]), tol[i][j]+1e-9)
			}
		}
	}
	return "", ""
}

func l1(v ref.V3) float64 { return math.Abs(v[0]) + math.Abs(v[1]) + math.Abs(v[2]) }

func genWhite(rt *rapid.T, label string) XY {
	y := rapid.Float32Range(0.2, 0.5).Draw(rt, label+"y")
	hi := float32(math.Min(0.5, math.Min(float64(1-1.17*y), float64(2.1*y))))
	if hi < 0.2 {
		hi = 0.2
	}
	x := rapid.Float32Range(0.2, hi).Draw(rt, label+"x")
	return XY{x, y}
}

// daylight locus chromaticity for CCT (CIE), 4000..25000 K; Planckian approx (Kim et al.) below
func locus(T float64) XY {
	var x float64
	if T >= 4000 {
		if T <= 7000 {
			x = -4.6070e9/(T*T*T) + 2.9678e6/(T*T) + 0.09911e3/T + 0.244063
		} else {
			x = -2.0064e9/(T*T*T) + 1.9018e6/(T*T) + 0.24748e3/T + 0.237040
		}
		return XY{float32(x), float32(-3.0*x*x + 2.87*x - 0.275)}
	}
	x = -0.2661239e9/(T*T*T) - 0.2343589e6/(T*T) + 0.8776956e3/T + 0.179910
	var y float64
	if T >= 2222 {
		y = -0.9549476*x*x*x - 1.37418593*x*x + 2.09137015*x - 0.16748867
	} else {
		y = -1.1063814*x*x*x - 1.34811020*x*x + 2.18555832*x - 0.20219683
	}
	return XY{float32(x), float32(y)}
}

func TestC12(t *testing.T) {
	if ev.Replaying() != nil {
		var c Case
		if err := ev.ReplayCase(&c); err != nil {
			t.Fatal(err)
		}
		if k, w := check(c); k != "" {
			ev.Fail(t, "adapt", k, w, c)
		}
		fmt.Println("REPLAY case passed:", c)
		return
	}
	ev.Rule("white points (chromaticity x luminance Y; Y = 1 and, for a fifth of the grid and half of the rapid cases, Y in [0.2,2], including pairs of equal chromaticity and different luminance): the 11 CIE standard illuminants (all ordered pairs and triples), daylight/Planckian locus points for generated CCT in [2000,25000] K with a small offset, and a chromaticity grid over [0.2,0.5]^2 (16x16 sub-grid squared in quick, 64x64 squared in thorough) restricted to whites whose three Bradford cone responses are at least 0.02*Y away from zero (negative responses of saturated whites included); colours: rapid float32 XYZ in [-0.5,2]^3. an eighth of the rapid cases directly follow a request outside the domain (non-finite or degenerate arguments) whose answer is ignored. non-trivial = distinct case with A != B (and three distinct whites for the composition law)")
	ev.Assume("internal/ref Bradford matrix transcribed from the literature; whites with a cone response within 0.02*Y of zero are excluded because the adaptation ratio is then meaningless (count reported)")
	table["LPS"] = XY{0.5692, 0.43}    // low-pressure sodium
	table["YG"] = XY{0.45, 0.54}       // saturated yellow-green
	table["DeepRed"] = XY{0.71, 0.285} // near the red end of the locus
	table["Pink"] = XY{0.5, 0.2}       // corner of the stated region
	names := []string{"A", "B", "C", "D50", "D55", "D65", "D75", "E", "F2", "F7", "F11", "LPS", "YG", "DeepRed", "Pink"}
	bad := false
	run := func(c Case, tag string) {
		ev.Eval(1)
		if c.A != c.B || c.XYZ != nil {
			ev.NT(ev.Hash(tag, c.A, c.B, c.C, c.L, fmt.Sprint(c.XYZ)))
		}
		if bad {
			return
		}
		if k, w := check(c); k != "" {
			bad = true
			ev.Violation("adapt", k, w, c)
		}
	}
	for _, a := range names {
		for _, b := range names {
			for _, cc := range names {
				run(Case{A: table[a], B: table[b], C: table[cc], V: [3]float32{0.3, 0.7, -0.2}}, "table")
				if cc == "D65" {
					// same and different chromaticities at different luminances
					run(Case{A: table[a], B: table[b], C: table[a], L: [3]float32{1, 0.8, 2}, V: [3]float32{0.3, 0.7, -0.2}}, "table-lum")
					run(Case{A: table[a], B: table[a], C: table[b], L: [3]float32{0.5, 1.25, 1}, V: [3]float32{0.1, 0.2, 0.9}}, "table-lum")
				}
			}
		}
	}
	ev.Class("cie-table-triples", int64(len(names)*len(names)*len(names)))
	// XYZ constants used in practice for the same illuminants (different sources round differently)
	xyzTable := [][3]float32{
		{ciexyz.D50.X, ciexyz.D50.Y, ciexyz.D50.Z}, {ciexyz.D65.X, ciexyz.D65.Y, ciexyz.D65.Z},
		{0.96420288, 1, 0.82490540},                // ICC PCS illuminant (s15Fixed16 0xF6D6 0x10000 0xD32D)
		{0.9642, 1, 0.8249}, {0.96422, 1, 0.82521}, // D50 as in ICC.1 text / ASTM E308
		{0.95047, 1, 1.08883}, {0.9505, 1, 1.089}, {0.95045593, 1, 1.08905775}, // D65 variants
		{1, 1, 1}, {1.0985, 1, 0.35585}, {0.98074, 1, 1.18232}, {0.95682, 1, 0.92149}, {0.94972, 1, 1.22638}, // E, A, C, D55, D75
		{0.48210144, 0.5, 0.41245270}, {96.42, 100, 82.49}, // scaled
	}
	for i, a := range xyzTable {
		for j, b := range xyzTable {
			cc := xyzTable[(i+j+1)%len(xyzTable)]
			x := [3][3]float32{a, b, cc}
			run(Case{XYZ: &x, V: [3]float32{0.4, 0.2, 0.9}}, "xyz-table")
		}
	}
	ev.Class("xyz-constant-pairs", int64(len(xyzTable)*len(xyzTable)))
	ev.Sample(map[string]any{"A": "D50 " + fmt.Sprint(table["D50"]), "B": "D65 " + fmt.Sprint(table["D65"]),
		"library":   toRef(matrix.Matrix3(ciexyz.AdaptBetweenXYYWhitePoints(xyY(table["D50"]), xyY(table["D65"])))),
		"reference": ref.Bradford(xyzExact(table["D50"]), xyzExact(table["D65"]))})

	// grid
	n := ev.Pick(16, 64)
	var grid []XY
	excluded := 0
	for i := 0; i < n; i++ {
		for j := 0; j < n; j++ {
			w := XY{float32(0.2 + 0.3*float64(i)/float64(n-1)), float32(0.2 + 0.3*float64(j)/float64(n-1))}
			if valid(w) {
				grid = append(grid, w)
			} else {
				excluded++
			}
		}
	}
	ev.Set("grid_points", len(grid))
	ev.Set("grid_points_excluded_invalid_white", excluded)
	var mu sync.Mutex
	var wg sync.WaitGroup
	sem := make(chan struct{}, 16)
	var firstBad *Case
	var firstKind, firstWhat string
	for ai := range grid {
		wg.Add(1)
		sem <- struct{}{}
		go func(ai int) {
			defer wg.Done()
			defer func() { <-sem }()
			for bi := range grid {
				c := Case{A: grid[ai], B: grid[bi], C: grid[(ai*31+bi*17+7)%len(grid)], V: [3]float32{float32(ai%7) * 0.3, 0.5, float32(bi%5)*0.4 - 0.5}}
				if (ai+bi)%5 == 0 {
					c.L = [3]float32{0.25 + float32(ai%8)/4, 0.25 + float32(bi%8)/4, 1}
				}
				if k, w := check(c); k != "" {
					mu.Lock()
					if firstBad == nil {
						cc := c
						firstBad, firstKind, firstWhat = &cc, k, w
					}
					mu.Unlock()
					return
				}
			}
		}(ai)
	}
	wg.Wait()
	ev.Eval(int64(len(grid)) * int64(len(grid)))
	ev.NTAdd(int64(len(grid)) * int64(len(grid)-1))
	ev.Class("grid-pairs", int64(len(grid))*int64(len(grid)))
	if firstBad != nil {
		ev.Violation("adapt", firstKind, firstWhat, *firstBad)
	}

	ev.RapidChecks(ev.Pick(20000, 1000000))
	ev.RapidSeed(12)
	var rej int64
	var early []Case
	rapid.Check(t, func(rt *rapid.T) {
		gw := func(l string) XY {
			if rapid.IntRange(0, 5).Draw(rt, l+"nearstd") == 0 {
				// a standard white as the library spells it, as a standard quotes it (fewer digits), or a hair beside it
				w := rapid.SampledFrom([]XY{{ciexyy.D50.X, ciexyy.D50.Y}, {ciexyy.D65.X, ciexyy.D65.Y}, {0.3127, 0.3290}, {0.3457, 0.3585}, {0.34567, 0.35850}, {0.31271, 0.32902}, {0.31270, 0.32900},
					{0.44757, 0.40745}, {1.0 / 3, 1.0 / 3}, {0.34842, 0.35161}, {0.31006, 0.31616}, {0.3324, 0.3474}}).Draw(rt, l+"std")
				if rapid.Bool().Draw(rt, l+"beside") {
					for ax := 0; ax < 2; ax++ {
						d := float32(math.Pow(10, rapid.Float64Range(-7.5, -3).Draw(rt, l+"off")))
						if rapid.Bool().Draw(rt, l+"neg") {
							d = -d
						}
						w[ax] += d
					}
				}
				return w
			}
			if rapid.IntRange(0, 3).Draw(rt, l+"kind") == 0 {
				T := rapid.Float64Range(2000, 25000).Draw(rt, l+"cct")
				w := locus(T)
				w[0] += rapid.Float32Range(-0.01, 0.01).Draw(rt, l+"dx")
				w[1] += rapid.Float32Range(-0.01, 0.01).Draw(rt, l+"dy")
				return w
			}
			return genWhite(rt, l)
		}
		c := Case{A: gw("a"), B: gw("b"), C: gw("c")}
		if rapid.Bool().Draw(rt, "luminances") {
			for i := range c.L {
				c.L[i] = rapid.Float32Range(0.2, 2).Draw(rt, "lum")
			}
		}
		switch rapid.IntRange(0, 5).Draw(rt, "samechroma") {
		case 0:
			c.B = c.A // same chromaticity, (possibly) different luminance
		case 1:
			c.C = c.B
		}
		// relations between the whites: a shared x or y, equal luminances, one luminance a power-of-two multiple of
		// another, chromaticities a few ulps or 1e-6..1e-3 apart (shortcuts keyed on "same" or "nearly same")
		ws := []*XY{&c.A, &c.B, &c.C}
		for k := rapid.IntRange(0, 2).Draw(rt, "nrelations"); k > 0; k-- {
			i, j := rapid.IntRange(0, 2).Draw(rt, "reli"), rapid.IntRange(0, 2).Draw(rt, "relj")
			switch rapid.IntRange(0, 5).Draw(rt, "relation") {
			case 0:
				ws[i][0] = ws[j][0]
			case 1:
				ws[i][1] = ws[j][1]
			case 2:
				c.L[i] = c.lum(j)
			case 3:
				c.L[i] = c.lum(j) * float32(math.Pow(2, float64(rapid.IntRange(-3, 3).Draw(rt, "pow2"))))
			case 4:
				*ws[i] = *ws[j]
				ax := rapid.IntRange(0, 1).Draw(rt, "nearaxis")
				ws[i][ax] = math.Float32frombits(math.Float32bits(ws[j][ax]) + uint32(rapid.IntRange(1, 4).Draw(rt, "ulps")))
			default:
				*ws[i] = *ws[j]
				d := float32(math.Pow(10, rapid.Float64Range(-6.5, -3).Draw(rt, "nearexp")))
				ws[i][rapid.IntRange(0, 1).Draw(rt, "nearaxis2")] += d
			}
		}
		for i := range c.V {
			c.V[i] = rapid.Float32Range(-0.5, 2).Draw(rt, "v")
		}
		if rapid.IntRange(0, 7).Draw(rt, "afteroutside") == 0 {
			c.After = rapid.IntRange(1, 24).Draw(rt, "outside")
		}
		if !valid(c.A) || !valid(c.B) || !valid(c.C) {
			rej++
			rt.Skip("invalid white")
		}
		ev.Eval(1)
		if (c.A != c.B || c.lum(0) != c.lum(1)) && (c.B != c.C || c.lum(1) != c.lum(2)) {
			ev.NT(ev.Hash("rapid", c))
		}
		if ev.SampleN() < 5 {
			ev.Sample(c)
		}
		if len(early) < 400 {
			early = append(early, c)
		}
		if k, w := check(c); k != "" {
			ev.Fail(rt, "adapt", k, w, c)
		}
	})
	// the first 400 generated cases once more, after everything else has been asked: what the library may have
	// remembered in the meantime (memos, caches that filled up and evicted, adapted sizes) must not change them
	for _, c := range early {
		ev.Eval(1)
		if k, w := check(c); k != "" {
			ev.Violation("adapt", k, "asked again after many other calls: "+w, c)
			break
		}
	}
	ev.Set("rapid_rejected_invalid_white", rej)
	if ev.Violations() > 0 {
		t.Fail()
	}
}
