// C11 — all conversions are safe for concurrent use, including the very first use.
package c11

import (
	"bytes"
	"encoding/json"
	"fmt"
	"os"
	"os/exec"
	"path/filepath"
	"strings"
	"sync"
	"sync/atomic"
	"testing"

	"pgregory.net/rapid"

	"verif/c11/trial"
	"verif/internal/ev"
)

func TestMain(m *testing.M) { ev.Main(m, "C11", "exploration") }

var childBin string

func buildChild(t *testing.T) {
	harness := os.Getenv("VERIF_HARNESS")
	if harness == "" {
		harness = "/verif/harness"
	}
	childBin = filepath.Join(ev.Root(), "out", "bin", "c11child")
	args := []string{"build", "-race"}
	if mf := os.Getenv("VERIF_MODFILE"); mf != "" {
		args = append(args, "-modfile="+mf)
	}
	cmd := exec.Command("go", append(args, "-o", childBin, "./c11/child")...)
	cmd.Dir = harness
	cmd.Env = append(os.Environ(), "CGO_ENABLED=1")
	if out, err := cmd.CombinedOutput(); err != nil {
		ev.Infra("cannot build race-instrumented child: %v\n%s", err, out)
		t.Fatalf("build child: %v\n%s", err, out)
	}
}

type outcome struct {
	race    bool
	report  string
	digests [][]uint64
	err     string
}

func runChild(trialPath, mode string) outcome {
	cmd := exec.Command(childBin, trialPath, mode)
	cmd.Env = append(os.Environ(), "GORACE=halt_on_error=1 exitcode=66")
	var so, se bytes.Buffer
	cmd.Stdout, cmd.Stderr = &so, &se
	err := cmd.Run()
	var o outcome
	if err != nil {
		if ee, ok := err.(*exec.ExitError); ok && ee.ExitCode() == 66 || strings.Contains(se.String(), "DATA RACE") {
			o.race = true
			o.report = se.String()
			if len(o.report) > 3000 {
				o.report = o.report[:3000]
			}
			return o
		}
		o.err = fmt.Sprintf("%v: %s", err, tail(se.String(), 1500))
		return o
	}
	var res struct {
		Digests [][]uint64 `json:"digests"`
	}
	if err := json.Unmarshal(so.Bytes(), &res); err != nil {
		o.err = "bad child output: " + err.Error()
		return o
	}
	o.digests = res.Digests
	return o
}

func raceKind(report string) string {
	// key by the package of the first prism frame in the report
	for _, line := range strings.Split(report, "\n") {
		if i := strings.Index(line, "github.com/mandykoh/prism"); i >= 0 {
			rest := strings.TrimPrefix(line[i:], "github.com/mandykoh/prism")
			rest = strings.TrimPrefix(rest, "/")
			if j := strings.IndexAny(rest, ".("); j > 0 {
				return "race/" + rest[:j]
			}
			return "race/prism"
		}
	}
	return "race"
}

func tail(s string, n int) string {
	if len(s) > n {
		return s[len(s)-n:]
	}
	return s
}

func check(tr trial.Trial, runs int) (kind, what string) { return checkIn(tr, runs, "main") }

func shrink(tr trial.Trial, kind string) trial.Trial {
	budget := 24
	try := func(c trial.Trial) bool {
		if budget <= 0 {
			return false
		}
		budget--
		k, _ := checkIn(c, 2, "shrink")
		return k == kind
	}
	for changed := true; changed && budget > 0; {
		changed = false
		for g := len(tr.Goroutines) - 1; g >= 0 && len(tr.Goroutines) > 2; g-- {
			c := tr
			c.Goroutines = append(append([][]trial.Op(nil), tr.Goroutines[:g]...), tr.Goroutines[g+1:]...)
			if try(c) {
				tr, changed = c, true
			}
		}
		for g := range tr.Goroutines {
			for len(tr.Goroutines[g]) > 1 {
				c := tr
				c.Goroutines = append([][]trial.Op(nil), tr.Goroutines...)
				c.Goroutines[g] = tr.Goroutines[g][:len(tr.Goroutines[g])-1]
				if !try(c) {
					break
				}
				tr, changed = c, true
			}
		}
	}
	return tr
}

// checkIn runs one trial: fresh race-instrumented process + sequential reference process.
func checkIn(tr trial.Trial, runs int, slot string) (kind, what string) {
	dir := filepath.Join(ev.Root(), "out", "run", "C11", slot)
	_ = os.MkdirAll(dir, 0o755)
	path := filepath.Join(dir, "trial.json")
	b, _ := json.Marshal(tr)
	if err := os.WriteFile(path, b, 0o644); err != nil {
		return "harness", err.Error()
	}
	seq := runChild(path, "seq")
	if seq.race {
		// even the single-goroutine run races: the library's own worker goroutines (parallelism > 1) are involved
		return raceKind(seq.report), "race detector report (operation lists executed on ONE goroutine; the racing goroutines are the library's own workers):\n" + seq.report
	}
	if seq.err != "" {
		if strings.Contains(seq.err, "panic") {
			return "panic", "sequential execution failed: " + seq.err
		}
		return "harness", "sequential reference run failed: " + seq.err + seq.report
	}
	for r := 0; r < runs; r++ {
		c := runChild(path, "conc")
		if c.race {
			return raceKind(c.report), "race detector report:\n" + c.report
		}
		if c.err != "" {
			if strings.Contains(c.err, "panic") || strings.Contains(c.err, "fatal error") {
				return "panic", "concurrent execution crashed: " + c.err
			}
			return "harness", "concurrent run failed: " + c.err
		}
		for g := range seq.digests {
			for i := range seq.digests[g] {
				if g >= len(c.digests) || i >= len(c.digests[g]) || c.digests[g][i] != seq.digests[g][i] {
					return "value", fmt.Sprintf("goroutine %d operation %d (%+v) returned a different value under concurrency than when executed alone", g, i, tr.Goroutines[g][i])
				}
			}
		}
	}
	return "", ""
}

func genOp(rt *rapid.T, names []string) trial.Op {
	return trial.Op{Name: rapid.SampledFrom(names).Draw(rt, "op"), Space: rapid.IntRange(0, 3).Draw(rt, "space"), Arg: rapid.IntRange(0, 70000).Draw(rt, "arg")}
}

// forceMode makes gen produce one kind of special trial ("storm", "crowd", "hammer"): every run contains a fixed
// minimum of each kind instead of leaving their number to chance
var forceMode string

func gen(rt *rapid.T) (trial.Trial, bool) {
	var tr trial.Trial
	n := rapid.SampledFrom([]int{2, 2, 3, 4, 8, 16, 64}).Draw(rt, "goroutines-max")
	n = rapid.IntRange(2, n).Draw(rt, "goroutines")
	tr.GOMAXPROCS = rapid.IntRange(1, 16).Draw(rt, "gomaxprocs")
	tr.Start = rapid.SampledFrom([]string{"barrier", "barrier", "two-waves", "gosched"}).Draw(rt, "start")
	if tr.Start == "gosched" {
		tr.Yields = rapid.SliceOfN(rapid.IntRange(0, 5), 1, 4).Draw(rt, "yields")
	}
	tr.Reps = rapid.SampledFrom([]int{1, 1, 20, 200}).Draw(rt, "reps")
	firstUse := rapid.IntRange(0, 3).Draw(rt, "first-use-race") > 0
	var hot trial.Op
	if firstUse {
		hot = trial.Op{Name: rapid.SampledFrom(trial.Lazy).Draw(rt, "hot"), Space: rapid.IntRange(0, 3).Draw(rt, "hotspace"), Arg: rapid.IntRange(0, 65535).Draw(rt, "hotarg")}
	}
	for g := 0; g < n; g++ {
		k := rapid.IntRange(1, 6).Draw(rt, "nops")
		var ops []trial.Op
		if firstUse && (g < 2 || rapid.Bool().Draw(rt, "alsohot")) {
			h := hot
			h.Arg = (hot.Arg + g*257) % 65536
			ops = append(ops, h)
		}
		for len(ops) < k {
			ops = append(ops, genOp(rt, trial.All))
		}
		tr.Goroutines = append(tr.Goroutines, ops)
	}
	// a quarter of the trials are "hammer" trials: few cheap operations, many repetitions, all goroutines on the
	// same small alphabet with different arguments (value corruption through shared caches is not a data race)
	if rapid.IntRange(0, 3).Draw(rt, "hammer") == 0 || forceMode == "hammer" {
		tr.Reps = rapid.SampledFrom([]int{2000, 20000}).Draw(rt, "hammerreps")
		hammerLoads := false
		names := []string{rapid.SampledFrom([]string{"Adapt", "ToXYZ", "Primaries", "From8To8", "From16", "To16", "LineariseColor", "EncodeColor", "DecodeTyped", "LoadFamily", "LoadFamily", "Profile", "LoadBad"}).Draw(rt, "hammerop")}
		if names[0] == "LoadFamily" {
			tr.Reps, hammerLoads = 300, true
		}
		if names[0] == "Profile" || names[0] == "LoadBad" {
			tr.Reps = 2000
		}
		_ = hammerLoads
		for g := range tr.Goroutines {
			tr.Goroutines[g] = []trial.Op{genOp(rt, names), genOp(rt, names)}
		}
	}
	// an eighth of the trials are crowds: 40..160 goroutines that all run image transforms with many workers at
	// once (resources shared between concurrent transforms - worker pools, scratch buffers - only run out then)
	if (rapid.IntRange(0, 7).Draw(rt, "crowd") == 0 && forceMode == "") || forceMode == "crowd" {
		n := rapid.IntRange(40, 160).Draw(rt, "crowdsize")
		tr.Reps = rapid.SampledFrom([]int{1, 3}).Draw(rt, "crowdreps")
		// half of the crowds share one or two processors: every goroutine waits a long time for its next turn, and
		// whatever measures wall-clock time inside a call sees it
		if rapid.Bool().Draw(rt, "fewprocs") {
			tr.GOMAXPROCS = rapid.SampledFrom([]int{1, 1, 2}).Draw(rt, "crowdprocs")
		}
		tr.Start = "barrier"
		tr.Goroutines = nil
		for g := 0; g < n; g++ {
			k := rapid.IntRange(1, 3).Draw(rt, "crowdops")
			var ops []trial.Op
			for len(ops) < k {
				ops = append(ops, genOp(rt, []string{"TransformBig", "TransformBig", "LineariseImage", "EncodeImage", "ConvertImage", "TransformTyped", "TransformTyped", "TileTransform", "TileTransform", "TransformContent", "TransformContent", "LoadBig"}))
			}
			tr.Goroutines = append(tr.Goroutines, ops)
		}
	}
	// an eighth are load storms: 16..64 goroutines that each load several different files / profiles of the family
	// again and again, so that far more distinct inputs are in flight than any cache, pool or ring has slots
	if rapid.IntRange(0, 7).Draw(rt, "loadstorm") == 0 || forceMode == "storm" {
		n := rapid.IntRange(16, 64).Draw(rt, "stormsize")
		tr.Reps = rapid.SampledFrom([]int{10, 40}).Draw(rt, "stormreps")
		tr.Walk = rapid.SampledFrom([]int{0, 1, 1, 7}).Draw(rt, "stormwalk")
		if forceMode == "storm" && tr.Walk == 0 {
			tr.Walk = 1
		}
		tr.Start = "barrier"
		tr.Goroutines = nil
		for g := 0; g < n; g++ {
			k := rapid.IntRange(3, 6).Draw(rt, "stormops")
			var ops []trial.Op
			for len(ops) < k {
				ops = append(ops, genOp(rt, []string{"LoadFamily", "LoadFamily", "LoadFamily", "Profile", "Load", "LoadBad", "LoadBad"}))
			}
			tr.Goroutines = append(tr.Goroutines, ops)
		}
	}
	nt := firstUse
	for _, ops := range tr.Goroutines {
		for _, o := range ops {
			if (o.Name == "LineariseImage" || o.Name == "EncodeImage" || o.Name == "ConvertImage") && o.Arg%8 > 0 || o.Name == "TransformBig" || o.Name == "TransformTyped" || o.Name == "TileTransform" || o.Name == "TransformContent" {
				nt = true
			}
		}
	}
	return tr, nt
}

func TestC11(t *testing.T) {
	buildChild(t)
	if ev.Replaying() != nil {
		var tr trial.Trial
		if err := ev.ReplayCase(&tr); err != nil {
			t.Fatal(err)
		}
		if k, w := check(tr, 5); k != "" && k != "harness" {
			ev.Fail(t, "schedule", k, w, tr)
		}
		fmt.Println("REPLAY case passed (5 fresh processes)")
		return
	}
	ev.Rule("generated trial descriptions: 2..64 goroutines, GOMAXPROCS 1..16, per goroutine 1-6 operations from {From16Bit/To16Bit of every space (lazily built tables), 8-bit decode/encode, LineariseColor, EncodeColor, Linearise/EncodeImage with parallelism 1..8 on per-goroutine destinations and shared read-only sources (RGBA64, NRGBA, paletted, Gray16, CMYK, YCbCr), transforms into per-goroutine tiles of one shared canvas, transforms of 128x40 structured sources (flat rows, flat columns, one colour, checkers, letterbox, mostly transparent; RGBA64/NRGBA64/NRGBA/RGBA) with 2..16 workers, ConvertImageTo*, the four loaders on shared byte slices (well-formed files, and files rejected early or late with the error text compared), the ICC profile reader and Description on 80 profiles with distinct headers and descriptions (with rejected headers in between), chromatic adaptation / Lab, XYZ transforms}, start shape one barrier / two waves / per-goroutine Gosched counts; an eighth are load storms (16..64 goroutines each loading 3-6 of 240 files with 80 distinct profiles, repeatedly, most of them moving on through the family by 1 or 7 files per repetition); an eighth of the trials are crowds of 40..160 goroutines running image transforms of a 96x64 image with 2..16 workers each and loads of a PNG with a 384 KiB profile, half of them on one or two processors; one trial per lazily initialised operation and space puts its first use on 2..8 goroutines at once; three quarters of the generated trials put the FIRST call to the same lazily built table on >= 2 goroutines behind the same barrier. Each trial runs in a fresh process built with -race from the current tree. Oracle: race detector (exit 66) + every operation's result digest equals the digest from a sequential process running the same operation lists with every image transform at parallelism 1. non-trivial = distinct trial with a first-use collision or an image transform with parallelism > 1")
	ev.Assume("the Go race detector's happens-before analysis; schedules are explored only as far as the Go scheduler varies them")
	// phase 1: rapid only draws the trial descriptions (cheap); phase 2 executes them 8 at a time
	type item struct {
		tr trial.Trial
		nt bool
	}
	var items []item
	ev.RapidChecks(ev.Pick(64, 2000))
	ev.RapidSeed(11)
	rapid.Check(t, func(rt *rapid.T) {
		tr, nt := gen(rt)
		items = append(items, item{tr, nt})
	})
	// every lazily initialised operation of every space meets its first use on several goroutines at once, once per run
	for _, name := range trial.Lazy {
		for space := 0; space < 4; space++ {
			if (name == "Adapt" || name == "Primaries") && space > 0 {
				continue
			}
			var tr trial.Trial
			n := 2 + (space+len(name))%7
			tr.GOMAXPROCS = []int{16, 4, 2, 8}[(space+len(name))%4]
			tr.Start = "barrier"
			tr.Reps = 1
			for g := 0; g < n; g++ {
				tr.Goroutines = append(tr.Goroutines, []trial.Op{{Name: name, Space: space, Arg: (g*257 + len(name)*31) % 65536}, {Name: name, Space: space, Arg: g}})
			}
			items = append(items, item{tr, true})
		}
	}
	for _, mode := range []string{"storm", "crowd", "hammer"} {
		forceMode = mode
		ev.RapidChecks(ev.Pick(3, 60))
		rapid.Check(t, func(rt *rapid.T) {
			tr, _ := gen(rt)
			items = append(items, item{tr, true})
		})
	}
	forceMode = ""
	type res struct {
		kind, what string
	}
	results := make([]res, len(items))
	var wg sync.WaitGroup
	sem := make(chan struct{}, 8)
	var stop int32
	for i := range items {
		if atomic.LoadInt32(&stop) != 0 {
			break
		}
		wg.Add(1)
		sem <- struct{}{}
		go func(i int) {
			defer wg.Done()
			defer func() { <-sem }()
			// one directory per trial: two trials that are in flight together must never share a description file
			slot := fmt.Sprintf("t%d", i)
			k, w := checkIn(items[i].tr, 1, slot)
			_ = os.RemoveAll(filepath.Join(ev.Root(), "out", "run", "C11", slot))
			results[i] = res{k, w}
			if k != "" {
				atomic.StoreInt32(&stop, 1)
			}
		}(i)
	}
	wg.Wait()
	for i, it := range items {
		if results[i].kind == "" && atomic.LoadInt32(&stop) != 0 && i > 0 && results[i].what == "" {
			// not executed (stopped early) or passed
		}
		ev.Eval(1)
		if it.nt {
			ev.NT(ev.Hash(fmt.Sprintf("%+v", it.tr)))
		}
		ev.Class("start-"+it.tr.Start, 1)
		if ev.SampleN() < 3 {
			ev.Sample(it.tr)
		}
	}
	for i := range items {
		k, w := results[i].kind, results[i].what
		if k == "" {
			continue
		}
		if k == "harness" {
			ev.Infra("%s", w)
			t.Fatalf("harness: %s", w)
		}
		// greedy shrink: drop goroutines and operations while the failure kind persists (bounded)
		tr := shrink(items[i].tr, k)
		if k2, w2 := checkIn(tr, 3, "shrunk"); k2 == k {
			w = w2
		} else {
			tr = items[i].tr
		}
		ev.Violation("schedule", k, w, tr)
		break
	}
	if ev.Violations() > 0 {
		t.Fail()
	}
}
