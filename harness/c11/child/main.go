// Command child executes one C11 trial (a generated schedule of operations on
// N goroutines) in a fresh process.  Built with -race by the C11 check.
//
//	child <trial.json> conc|seq
//
// It prints {"digests": [[...],[...]]} — one digest per goroutine per operation.
package main

import (
	"bufio"
	"bytes"
	"encoding/json"
	"fmt"
	"hash/fnv"
	"image"
	"image/color"
	"io"
	"os"
	"runtime"
	"strings"
	"sync"

	prism "github.com/mandykoh/prism"
	"github.com/mandykoh/prism/ciexyy"
	"github.com/mandykoh/prism/ciexyz"
	"github.com/mandykoh/prism/linear"
	"github.com/mandykoh/prism/meta/icc"

	"verif/c11/trial"
	"verif/internal/build"
	"verif/internal/ld"
	"verif/internal/seeds"
	"verif/internal/sp"
)

var family, damaged, profiles, rejected [][]byte

// bigPNG: a PNG whose profile is 384 KiB of incompressible bytes - a load that takes long enough to be preempted
// in the middle whenever more goroutines than processors are busy
var bigPNG []byte

var (
	srcRGBA64 *image.RGBA64
	srcNRGBA  *image.NRGBA
	srcYCbCr  *image.YCbCr
	srcBig    *image.NRGBA
	canvas    *image.RGBA64
	srcPal    *image.Paletted
	srcGray16 *image.Gray16
	srcCMYK   *image.CMYK
	files     map[string][]byte
)

func setup() {
	srcRGBA64 = image.NewRGBA64(image.Rect(0, 0, 13, 11))
	for i := range srcRGBA64.Pix {
		srcRGBA64.Pix[i] = byte(i*7 + 3)
	}
	// keep it validly premultiplied: alpha bytes 0xFF
	for i := 6; i < len(srcRGBA64.Pix); i += 8 {
		srcRGBA64.Pix[i], srcRGBA64.Pix[i+1] = 0xFF, 0xFF
	}
	srcNRGBA = image.NewNRGBA(image.Rect(2, 3, 19, 14))
	for i := range srcNRGBA.Pix {
		srcNRGBA.Pix[i] = byte(i*13 + 1)
	}
	srcYCbCr = image.NewYCbCr(image.Rect(0, 0, 16, 12), image.YCbCrSubsampleRatio420)
	for i := range srcYCbCr.Y {
		srcYCbCr.Y[i] = byte(i * 5)
	}
	for i := range srcYCbCr.Cb {
		srcYCbCr.Cb[i], srcYCbCr.Cr[i] = byte(i*11), byte(255-i*3)
	}
	srcBig = image.NewNRGBA(image.Rect(0, 0, 96, 64))
	for i := range srcBig.Pix {
		srcBig.Pix[i] = byte(i*29 + i>>9)
	}
	pal := make(color.Palette, 256)
	for i := range pal {
		pal[i] = color.NRGBA{R: uint8(i * 7), G: uint8(i * 13), B: uint8(255 - i), A: uint8(128 + i/2)}
	}
	srcPal = image.NewPaletted(image.Rect(0, 0, 64, 48), pal)
	for i := range srcPal.Pix {
		srcPal.Pix[i] = byte(i*31 + i>>6)
	}
	srcGray16 = image.NewGray16(image.Rect(1, 1, 41, 31))
	for i := range srcGray16.Pix {
		srcGray16.Pix[i] = byte(i * 11)
	}
	srcCMYK = image.NewCMYK(image.Rect(0, 0, 33, 29))
	for i := range srcCMYK.Pix {
		srcCMYK.Pix[i] = byte(i*3 + 1)
	}
	canvas = image.NewRGBA64(image.Rect(0, 0, 64*5, 4*9))
	buildStructured()
	{
		prof := make([]byte, 384<<10)
		x := uint32(2463534242)
		for i := range prof {
			x ^= x << 13
			x ^= x >> 17
			x ^= x << 5
			prof[i] = byte(x)
		}
		bigPNG, _ = build.PNG{W: 31, H: 17, Depth: 8, ColorType: 2, Pre: []build.Chunk{build.ICCPChunk("big", prof, 1)}, IDAT: []byte{1}}.Bytes()
	}
	files = map[string][]byte{}
	for _, s := range seeds.Built() {
		switch s.Name {
		case "built/png-2":
			files["png"] = s.Data
		case "built/jpeg-2":
			files["jpeg"] = s.Data
		case "built/webp-x-2":
			files["webp"] = s.Data
		}
	}
	// a family of files with DIFFERENT embedded profiles (so that buffers shared between concurrent or successive
	// loads show as wrong bytes) and damaged variants (error paths release resources too)
	for i := 0; i < 80; i++ { // more distinct profiles than any plausible small cache has slots
		prof := build.SimpleProfile(build.TextDesc(fmt.Sprintf("profile number %d", i)), 300+(i%8)*517+i/8)
		for k := range prof[200:] {
			prof[200+k] ^= byte(i*37 + k)
		}
		p, _ := build.PNG{W: uint32(10 + i), H: 7, Depth: 8, ColorType: 2, Pre: []build.Chunk{{Type: "tEXt", Data: make([]byte, 30+i)}, build.ICCPChunk("p", prof, 6)}, IDAT: make([]byte, 3000)}.Bytes()
		// every fourth JPEG spreads its profile over 18..40 small segments (writers with small buffers, profiles of
		// megabytes): per-file tables sized by the chunk count
		chunkSizes := []int{100 + i}
		if i%4 == 3 {
			n := 18 + i%23
			chunkSizes = nil
			for k := 0; k < n-1; k++ {
				chunkSizes = append(chunkSizes, len(prof)/n)
			}
		}
		j, _ := build.JPEG{Segs: append(build.ICCSegs(prof, chunkSizes), build.Seg{Marker: 0xC0, Data: build.SOF(8, 7, uint16(10+i), [][3]byte{{1, 0x11, 0}})}), SOS: []byte{1, 1, 0, 0, 63, 0}, Entropy: make([]byte, 3000)}.Bytes()
		w, _ := build.WebP{Chunks: []build.RIFFChunk{{FourCC: "VP8X", Data: build.VP8XHeader(0x20, uint32(9+i), 6)}, {FourCC: "ICCP", Data: prof}, {FourCC: "VP8L", Data: build.VP8LHeader(uint16(9+i), 6, false)}}}.Bytes()
		family = append(family, p, j, w)
	}
	for i := 0; i < 80; i++ { // more distinct descriptions than a small cache (or two generations of one) holds
		prof := build.SimpleProfile(build.TextDesc(fmt.Sprintf("standalone profile %d", i)), 100+i*41)
		if i%2 == 1 {
			// v4 descriptions: several records, an English one among them, texts of different lengths and scripts
			en := fmt.Sprintf("Display profile %d %s", i, strings.Repeat("wide gamut ", i))
			prof = build.SimpleProfile(build.Mluc([]build.MlucRec{
				{Lang: [2]byte{'d', 'e'}, Country: [2]byte{'D', 'E'}, Text: fmt.Sprintf("Anzeigeprofil %d", i*i)},
				{Lang: [2]byte{'e', 'n'}, Country: [2]byte{'U', 'S'}, Text: en},
				{Lang: [2]byte{'j', 'a'}, Country: [2]byte{'J', 'P'}, Text: strings.Repeat("ディスプレイ", 1+i%4)}}, []int{2, 0, 1}, nil, i%3), 100+i*41)
		}
		for k := 4; k < 128; k++ {
			if k < 24 || k >= 40 { // keep the date and the signature
				prof[k] = byte(k*(i+3) + i*29)
			}
		}
		profiles = append(profiles, prof)
		bad := append([]byte(nil), prof...)
		bad[36+i%4] ^= 0x20
		rejected = append(rejected, bad)
	}
	wd, _ := build.WebP{Chunks: []build.RIFFChunk{{FourCC: "VP8X", Data: build.VP8XHeader(0x20, 9, 6)}, {FourCC: "ICCP", Data: make([]byte, 4000)}}}.Bytes()
	damaged = append(damaged, wd[:len(wd)-1500]) // truncated ICCP
	pd, _ := build.PNG{W: 3, H: 3, Depth: 8, ColorType: 2, Pre: []build.Chunk{build.RawICCPChunk("bad", []byte{0x78, 0x9c, 0xFF, 0xFF, 1, 2, 3})}, IDAT: []byte{1}}.Bytes()
	damaged = append(damaged, pd)
	jd, _ := build.JPEG{Segs: []build.Seg{build.ICCSeg(1, 3, []byte("abc")), {Marker: 0xC0, Data: build.SOF(8, 7, 9, [][3]byte{{1, 0x11, 0}})}}, SOS: []byte{1, 1, 0, 0, 63, 0}}.Bytes()
	damaged = append(damaged, jd, []byte("RIFF\x10\x00\x00\x00WEBPVP8X\x0a\x00"), []byte{0xFF, 0xD8, 0xFF})
	// JPEGs whose frame header is of a kind the loader does not support (extended, lossless, arithmetic ...), and
	// other ways of being turned away late
	for _, m := range []byte{0xC1, 0xC3, 0xC5, 0xC6, 0xC7, 0xC9, 0xCA, 0xCB, 0xCD, 0xCE, 0xCF, 0xCC, 0xDC, 0x01} {
		bad, _ := build.JPEG{Segs: []build.Seg{{Marker: 0xE0, Data: []byte("JFIF\x00\x01\x01\x00\x00\x01\x00\x01\x00\x00")}, {Marker: m, Data: build.SOF(8, 7, 9, [][3]byte{{1, 0x11, 0}})}}, SOS: []byte{1, 1, 0, 0, 63, 0}}.Bytes()
		damaged = append(damaged, bad)
	}
	// inputs on which a loader recovers from an internal panic (a frame header too short to hold its fields), with
	// and without part of a multi-chunk profile collected before it
	for _, n := range []int{0, 1, 4} {
		short, _ := build.JPEG{Segs: []build.Seg{{Marker: 0xC0, Data: make([]byte, n)}}, SOS: []byte{1, 1, 0, 0, 63, 0}}.Bytes()
		short2, _ := build.JPEG{Segs: []build.Seg{build.ICCSeg(1, 2, []byte("abcdef")), {Marker: 0xC2, Data: make([]byte, n)}}, SOS: []byte{1, 1, 0, 0, 63, 0}}.Bytes()
		short3, _ := build.JPEG{Segs: []build.Seg{{Marker: 0xC0, Data: build.SOF(8, 480, 640, [][3]byte{{1, 0x11, 0}})}, {Marker: 0xC0, Data: make([]byte, n)}}, SOS: []byte{1, 1, 0, 0, 63, 0}}.Bytes()
		damaged = append(damaged, short, short2, short3)
	}
	// a PNG whose iCCP chunk declares a gigabyte and delivers 256 KiB before the input ends: whatever a load reserves
	// or counts on the strength of a declared length is held while those bytes are read, and other loads run meanwhile
	{
		big := append([]byte(nil), build.PNGSig...)
		big = append(big, 0, 0, 0, 13, 'I', 'H', 'D', 'R', 0, 0, 0, 9, 0, 0, 0, 7, 8, 2, 0, 0, 0, 0x11, 0x22, 0x33, 0x44)
		big = append(big, 0x40, 0, 0, 0, 'i', 'C', 'C', 'P', 'p', 0, 0, 0x78, 0x9c)
		junk := make([]byte, 256<<10)
		for i := range junk {
			junk[i] = byte(i*131 + i>>7)
		}
		damaged = append(damaged, append(big, junk...))
	}
	bp, _ := build.PNG{W: 3, H: 3, Depth: 8, ColorType: 2, Pre: []build.Chunk{build.RawICCPChunk("toolong-name-without-terminator-................................................................", []byte{1})}, IDAT: []byte{1}}.Bytes()
	damaged = append(damaged, bp, []byte("\x89PNG\r\n\x1a\n\x00\x00\x00\x0dIHDX"), []byte("RIFF\x04\x00\x00\x00WEBX"))
}

// seqPar1: in the sequential reference process every image transform runs with parallelism 1 (what a transform
// writes does not depend on the number of workers), so that the reference cannot share a fault that only exists
// between the workers of one call
var seqPar1 bool

func workers(n int) int {
	if seqPar1 {
		return 1
	}
	return n
}

// structured sources: flat rows, flat columns, one colour, checkers, letterbox, mostly transparent - content that
// run-length shortcuts, per-row caches and "same as the previous pixel" paths key on - in four pixel formats
var structured []image.Image

func buildStructured() {
	const w, h = 128, 40
	pal := []color.NRGBA64{{R: 65535, G: 0, B: 0, A: 65535}, {R: 0, G: 40000, B: 65535, A: 65535}, {R: 12345, G: 54321, B: 999, A: 30000}, {R: 0, G: 0, B: 0, A: 65535}, {R: 65535, G: 65535, B: 65535, A: 65535}, {R: 500, G: 600, B: 700, A: 0}, {R: 30000, G: 30000, B: 30000, A: 65535}}
	at := func(kind, x, y int) color.NRGBA64 {
		switch kind {
		case 0:
			return pal[y%5]
		case 1:
			return pal[x%5]
		case 2:
			return pal[2]
		case 3:
			return pal[((x/8)+(y/8))%2]
		case 4:
			if y < 6 || y >= h-6 {
				return pal[3]
			}
			return color.NRGBA64{R: uint16(x * 509), G: uint16(y * 1601), B: uint16(x*y + 7), A: 65535}
		default:
			if x >= 40 && x < 90 && y >= 10 && y < 30 {
				return pal[(x+y)%2]
			}
			return pal[5]
		}
	}
	r := image.Rect(0, 0, w, h)
	for kind := 0; kind < 6; kind++ {
		a, b, c, d := image.NewRGBA64(r), image.NewNRGBA64(r), image.NewNRGBA(r), image.NewRGBA(r)
		for y := 0; y < h; y++ {
			for x := 0; x < w; x++ {
				v := at(kind, x, y)
				a.Set(x, y, v)
				b.SetNRGBA64(x, y, v)
				c.Set(x, y, v)
				d.Set(x, y, v)
			}
		}
		structured = append(structured, a, b, c, d)
	}
}

// plainByteReader hides every method of the wrapped reader except Read and ReadByte
type plainByteReader struct{ r *bytes.Reader }

func (p plainByteReader) Read(b []byte) (int, error) { return p.r.Read(b) }
func (p plainByteReader) ReadByte() (byte, error)    { return p.r.ReadByte() }

func space(i int) *sp.API { return &sp.Spaces[i%len(sp.Spaces)] }

func digest(parts ...any) uint64 {
	h := fnv.New64a()
	for _, p := range parts {
		switch v := p.(type) {
		case []byte:
			h.Write(v)
		default:
			fmt.Fprintf(h, "%v|", v)
		}
	}
	return h.Sum64()
}

func run(op trial.Op, g int) uint64 {
	a := op.Arg
	s := space(op.Space)
	switch op.Name {
	case "From16":
		if s.From16 == nil {
			c, _ := s.FromEncoded(color.RGBA64{R: uint16(a), G: uint16(a * 3), B: uint16(a * 7), A: 65535})
			return digest(c)
		}
		return digest(s.From16(uint16(a)), s.From16(uint16(a*3)), s.From16(65535))
	case "To16":
		x := float32(a%65536) / 65535
		if s.To16 == nil {
			return digest(s.ToRGBA64(linear.RGB{R: x, G: x / 2, B: 1}, 1))
		}
		return digest(s.To16(x), s.To16(x/2), s.To16(1))
	case "From8To8":
		c, al := s.FromNRGBA(color.NRGBA{R: uint8(a), G: uint8(a >> 3), B: uint8(a >> 5), A: uint8(a >> 1)})
		return digest(c, al, s.ToNRGBA(c, al))
	case "LineariseColor":
		return digest(s.LineariseColor(color.NRGBA64{R: uint16(a), G: uint16(a * 5), B: uint16(a * 11), A: uint16(40000 + a%20000)}))
	case "DecodeTyped":
		// the same decode through different dynamic colour types (type-specific fast paths share the lazy tables)
		var c color.Color
		switch a % 7 {
		case 0:
			c = color.Gray16{Y: uint16(a)}
		case 1:
			c = color.Gray{Y: uint8(a)}
		case 2:
			c = color.RGBA{R: uint8(a) / 2, G: uint8(a) / 3, B: 1, A: uint8(a) | 1}
		case 3:
			c = color.RGBA64{R: uint16(a) / 2, G: uint16(a) / 3, B: 1, A: uint16(a) | 1}
		case 4:
			c = color.Alpha16{A: uint16(a)}
		case 5:
			c = color.CMYK{C: uint8(a), M: uint8(a >> 2), Y: uint8(a >> 4), K: 3}
		default:
			c = color.NYCbCrA{YCbCr: color.YCbCr{Y: uint8(a), Cb: uint8(a >> 3), Cr: uint8(a >> 5)}, A: uint8(a >> 1)}
		}
		col, al := s.FromEncoded(c)
		return digest(col, al, s.LineariseColor(c), s.EncodeColor(c))
	case "Primaries":
		r := ciexyy.Color{X: 0.60 + float32(a%90)/1000, Y: 0.33, YY: 1}
		g := ciexyy.Color{X: 0.21 + float32(a%70)/1000, Y: 0.70, YY: 1}
		b := ciexyy.Color{X: 0.15, Y: 0.05 + float32(a%30)/1000, YY: 1}
		return digest(ciexyz.TransformToXYZForXYYPrimaries(r, g, b, ciexyy.D65), ciexyz.TransformFromXYZForXYYPrimaries(r, g, b, ciexyy.D50))
	case "EncodeColor":
		return digest(s.EncodeColor(color.NRGBA64{R: uint16(a), G: uint16(a * 5), B: uint16(a * 11), A: uint16(40000 + a%20000)}))
	case "LineariseImage", "EncodeImage":
		var src image.Image = srcRGBA64
		if a%2 == 1 {
			src = srcNRGBA
		}
		par := workers(1 + a%8)
		b := src.Bounds()
		var dst interface {
			image.Image
			Set(int, int, color.Color)
		}
		var pix *[]byte
		if a%3 == 0 {
			d := image.NewRGBA(b)
			dst, pix = d, &d.Pix
		} else {
			d := image.NewRGBA64(b)
			dst, pix = d, &d.Pix
		}
		if op.Name == "LineariseImage" {
			s.LineariseImage(dst, src, par)
		} else {
			s.EncodeImage(dst, src, par)
		}
		return digest(*pix)
	case "TransformContent":
		src := structured[a%len(structured)]
		par := workers([]int{2, 3, 4, 8, 16}[(a/24)%5])
		var pix *[]byte
		var dst interface {
			image.Image
			Set(int, int, color.Color)
		}
		switch (a / 120) % 3 {
		case 0:
			d := image.NewRGBA64(src.Bounds())
			dst, pix = d, &d.Pix
		case 1:
			d := image.NewRGBA(src.Bounds())
			dst, pix = d, &d.Pix
		default:
			d := image.NewNRGBA64(src.Bounds())
			dst, pix = d, &d.Pix
		}
		if a&1024 == 0 {
			s.LineariseImage(dst, src, par)
		} else {
			s.EncodeImage(dst, src, par)
		}
		return digest(*pix)
	case "TransformBig":
		// a transform large enough to still be running when the next goroutines start theirs (crowd trials)
		par := workers([]int{2, 4, 8, 16}[a%4])
		b := srcBig.Bounds()
		d := image.NewRGBA64(b)
		if a&4 == 0 {
			s.LineariseImage(d, srcBig, par)
		} else {
			s.EncodeImage(d, srcBig, par)
		}
		return digest(d.Pix)
	case "TransformTyped":
		// sources of other concrete types (paletted, grey, CMYK, YCbCr): type-specific paths inside one transform
		// call have workers of their own
		srcs := []image.Image{srcPal, srcGray16, srcCMYK, srcYCbCr}
		src := srcs[a%len(srcs)]
		par := workers([]int{2, 3, 4, 8}[(a/4)%4])
		d := image.NewRGBA64(src.Bounds())
		if a&64 == 0 {
			s.LineariseImage(d, src, par)
		} else {
			s.EncodeImage(d, src, par)
		}
		return digest(d.Pix)
	case "TileTransform":
		// every goroutine owns one tile (a disjoint sub-image) of ONE shared canvas and transforms into it: an atlas,
		// tile-parallel processing of a large image
		tile := image.Rect((g%64)*5, (g/64)*9, (g%64)*5+5, (g/64)*9+9)
		dst := canvas.SubImage(tile).(*image.RGBA64)
		src := srcNRGBA.SubImage(image.Rect(2, 3, 7, 12))
		par := workers(1 + a%4)
		if a&8 == 0 {
			s.LineariseImage(dst, src, par)
		} else {
			s.EncodeImage(dst, src, par)
		}
		var px []byte
		for y := tile.Min.Y; y < tile.Max.Y; y++ {
			o := dst.PixOffset(tile.Min.X, y)
			px = append(px, dst.Pix[o:o+8*tile.Dx()]...)
		}
		return digest(px)
	case "ConvertImage":
		par := workers(1 + a%8)
		switch a % 3 {
		case 0:
			return digest(prism.ConvertImageToRGBA64(srcYCbCr, par).Pix)
		case 1:
			return digest(prism.ConvertImageToNRGBA(srcYCbCr, par).Pix)
		default:
			return digest(prism.ConvertImageToRGBA64(srcNRGBA, par).Pix, prism.ConvertImageToRGBA(srcRGBA64, par).Pix)
		}
	case "Load":
		name := []string{"png", "jpeg", "webp"}[a%3]
		target := name
		if a%2 == 0 {
			target = "auto"
		}
		o := ld.Run(target, bytes.NewReader(files[name]))
		d := ""
		if o.Stream != nil {
			var buf bytes.Buffer
			buf.ReadFrom(o.Stream)
			d = fmt.Sprint(digest(buf.Bytes()))
		}
		return digest(o.OK, o.Format, o.W, o.H, o.Bits, o.ICC, o.ICCErr, d)
	case "LoadBig":
		target := "png"
		if a%2 == 0 {
			target = "auto"
		}
		o := ld.Run(target, bytes.NewReader(bigPNG))
		return digest(o.OK, o.Format, o.W, o.H, len(o.ICC), o.ICC, o.ICCErr)
	case "LoadFamily":
		// one of 240 files with different profiles; every fourth call loads a damaged file first
		if a%4 == 0 {
			ld.Run("auto", bytes.NewReader(damaged[a%len(damaged)]))
		}
		d := family[a%len(family)]
		target := "auto"
		if a%3 == 0 {
			target = []string{"png", "jpeg", "webp"}[a%len(family)%3]
		}
		o := ld.Run(target, bytes.NewReader(d))
		rest := 0
		if o.Stream != nil {
			var buf bytes.Buffer
			buf.ReadFrom(o.Stream)
			rest = int(digest(buf.Bytes()))
		}
		return digest(o.OK, o.Format, o.W, o.H, o.ICC, o.ICCErr, rest)
	case "Profile":
		// one of 80 profiles whose headers differ in every field; every fourth call first parses a header that is
		// rejected (error paths hand resources back too)
		if a%4 == 0 {
			icc.NewProfileReader(bytes.NewReader(rejected[a%len(rejected)])).ReadProfile()
		}
		// the reader's own type varies: callers hand over whatever they have
		pd := profiles[a%len(profiles)]
		var rd interface {
			io.Reader
			io.ByteReader
		}
		switch (a / 7) % 5 {
		case 0:
			rd = bytes.NewReader(pd)
		case 1:
			rd = bytes.NewBuffer(append([]byte(nil), pd...))
		case 2:
			rd = strings.NewReader(string(pd))
		case 3:
			rd = bufio.NewReaderSize(bytes.NewReader(pd), 64)
		default:
			rd = plainByteReader{bytes.NewReader(pd)}
		}
		p, err := icc.NewProfileReader(rd).ReadProfile()
		if err != nil {
			return digest(err.Error())
		}
		d, derr := p.Description()
		return digest(fmt.Sprintf("%+v", p.Header), d, derr)
	case "LoadBad":
		// a file that some loader rejects: the error (its text included) is part of what a call returns
		d := damaged[a%len(damaged)]
		target := []string{"jpeg", "png", "webp", "auto"}[(a/len(damaged))%4]
		o := ld.Run(target, bytes.NewReader(d))
		rest := 0
		if o.Stream != nil {
			var buf bytes.Buffer
			buf.ReadFrom(o.Stream)
			rest = int(digest(buf.Bytes()))
		}
		return digest(o.OK, o.Err, o.Format, o.W, o.H, o.ICC, o.ICCErr, rest)
	case "Adapt":
		ad := ciexyz.AdaptBetweenXYYWhitePoints(ciexyy.D50, ciexyy.Color{X: 0.3 + float32(a%100)/1000, Y: 0.33, YY: 1})
		return digest(ad.Apply(ciexyz.Color{X: 0.2, Y: 0.5, Z: 0.7}), ciexyz.Color{X: float32(a%97) / 97, Y: 0.4, Z: 0.9}.ToLAB(ciexyz.D65))
	case "ToXYZ":
		c := s.FromLinear(float32(a%13)/13, 0.5, 0.25)
		return digest(s.ToXYZ(c), s.FromXYZ(ciexyz.Color{X: 0.3, Y: float32(a%7) / 7, Z: 0.2}))
	}
	panic("unknown op " + op.Name)
}

// walk runs the whole list Reps times, moving every argument on by Walk per repetition; one digest per operation
// accumulates all repetitions
func walk(tr trial.Trial, ops []trial.Op, g int) []uint64 {
	res := make([]uint64, len(ops))
	reps := tr.Reps
	if reps < 1 {
		reps = 1
	}
	for r := 0; r < reps; r++ {
		for i, op := range ops {
			op.Arg += r * tr.Walk
			res[i] = digest(res[i], run(op, g))
		}
	}
	return res
}

func main() {
	if len(os.Args) < 3 {
		fmt.Fprintln(os.Stderr, "usage: child trial.json conc|seq")
		os.Exit(2)
	}
	b, err := os.ReadFile(os.Args[1])
	if err != nil {
		fmt.Fprintln(os.Stderr, err)
		os.Exit(2)
	}
	var tr trial.Trial
	if err := json.Unmarshal(b, &tr); err != nil {
		fmt.Fprintln(os.Stderr, err)
		os.Exit(2)
	}
	setup()
	out := make([][]uint64, len(tr.Goroutines))
	if os.Args[2] == "seq" {
		seqPar1 = true
		for g, ops := range tr.Goroutines {
			if tr.Walk > 0 {
				out[g] = walk(tr, ops, g)
				continue
			}
			for _, op := range ops {
				out[g] = append(out[g], run(op, g))
			}
		}
	} else {
		if tr.GOMAXPROCS > 0 {
			runtime.GOMAXPROCS(tr.GOMAXPROCS)
		}
		var wg sync.WaitGroup
		gate := make([]chan struct{}, 2)
		gate[0], gate[1] = make(chan struct{}), make(chan struct{})
		var ready sync.WaitGroup
		for g, ops := range tr.Goroutines {
			wg.Add(1)
			ready.Add(1)
			go func(g int, ops []trial.Op) {
				defer wg.Done()
				wave := 0
				if tr.Start == "two-waves" && g%2 == 1 {
					wave = 1
				}
				ready.Done()
				<-gate[wave]
				if tr.Start == "gosched" {
					for i := 0; i < tr.Yields[g%len(tr.Yields)]; i++ {
						runtime.Gosched()
					}
				}
				if tr.Walk > 0 {
					out[g] = walk(tr, ops, g)
					return
				}
				res := make([]uint64, 0, len(ops))
				for _, op := range ops {
					d := run(op, g)
					for r := 1; r < tr.Reps; r++ {
						if d2 := run(op, g); d2 != d {
							d = d2 ^ 0xBAD // any differing repetition poisons the digest
							break
						}
					}
					res = append(res, d)
				}
				out[g] = res
			}(g, ops)
		}
		ready.Wait()
		close(gate[0])
		if tr.Start == "two-waves" {
			runtime.Gosched()
		}
		close(gate[1])
		wg.Wait()
	}
	json.NewEncoder(os.Stdout).Encode(map[string]any{"digests": out})
}
