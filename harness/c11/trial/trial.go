// Package trial defines the serialisable description of one C11 schedule.
package trial

type Op struct {
	Name  string `json:"name"`
	Space int    `json:"space"`
	Arg   int    `json:"arg"`
}

type Trial struct {
	GOMAXPROCS int    `json:"gomaxprocs"`
	Start      string `json:"start"` // barrier, two-waves, gosched
	Yields     []int  `json:"yields,omitempty"`
	Goroutines [][]Op `json:"goroutines"`
	// Reps: every operation is executed this many times in a row (>= 1); each repetition must give the same
	// result.  Repetition widens the window for value corruption that is not a data race.
	Reps int `json:"reps,omitempty"`
	// Walk > 0: the goroutine runs its whole operation list Reps times and repetition r uses argument Arg+r*Walk,
	// so every goroutine wanders through the input families instead of repeating one input (the sequential
	// reference walks the same way)
	Walk int `json:"walk,omitempty"`
}

// Lazy operations: their first call may build package-level state (tables today; anything tomorrow).
var Lazy = []string{"From16", "To16", "DecodeTyped", "LineariseColor", "EncodeColor", "From8To8", "Adapt", "Primaries", "ToXYZ"}

var All = []string{"From16", "To16", "From8To8", "LineariseColor", "EncodeColor", "DecodeTyped", "LineariseImage", "EncodeImage", "ConvertImage", "Load", "LoadFamily", "LoadFamily", "Adapt", "ToXYZ", "Primaries", "Profile", "TransformBig", "LoadBad", "LoadBad", "TransformTyped", "TransformTyped", "TileTransform", "TileTransform", "TransformContent", "TransformContent", "TransformContent", "LoadBig"}
