// Package src provides the instrumented io.Reader used as image source:
// it implements only io.Reader, follows a read-segmentation schedule, can
// inject a sticky I/O fault at a byte position, can return the final data
// together with io.EOF, can append a lazily generated payload, and logs
// every call.
package src

import (
	"errors"
	"io"
)

// ErrInjected is the injected I/O error.
var ErrInjected = errors.New("injected I/O fault")

type Source struct {
	Data          []byte
	Tail          int64 // lazily generated payload bytes following Data
	Sizes         []int // segment sizes, cycled; nil = deliver as requested
	FaultAt       int64 // < 0: none
	FaultWithData bool  // the call reaching FaultAt returns its bytes together with the error
	DataWithEOF   bool  // the final bytes are returned together with io.EOF

	Pos        int64
	Calls      int
	ShortCalls int  // calls that returned fewer bytes than requested while more were available
	MultiCall  bool // input delivered in >= 2 data-bearing calls
	dataCalls  int
	sizeIdx    int
	failed     bool
}

func New(data []byte) *Source { return &Source{Data: data, FaultAt: -1} }

func (s *Source) total() int64 { return int64(len(s.Data)) + s.Tail }

// TailByte is the deterministic content of the lazy payload.
func TailByte(i int64) byte { return byte(i*7+i>>9) | 1 }

func (s *Source) Read(p []byte) (int, error) {
	s.Calls++
	if len(p) == 0 {
		return 0, nil
	}
	if s.failed {
		return 0, ErrInjected
	}
	limit := s.total()
	if s.FaultAt >= 0 && s.FaultAt < limit {
		limit = s.FaultAt
	}
	if s.Pos >= limit {
		if s.FaultAt >= 0 && s.Pos >= s.FaultAt {
			s.failed = true
			return 0, ErrInjected
		}
		return 0, io.EOF
	}
	n := len(p)
	if len(s.Sizes) > 0 {
		k := s.Sizes[s.sizeIdx%len(s.Sizes)]
		s.sizeIdx++
		if k < 1 {
			k = 1
		}
		if k < n {
			n = k
		}
	}
	if int64(n) > limit-s.Pos {
		n = int(limit - s.Pos)
	}
	if n < len(p) && s.Pos+int64(n) < limit {
		s.ShortCalls++
	}
	for i := 0; i < n; i++ {
		q := s.Pos + int64(i)
		if q < int64(len(s.Data)) {
			p[i] = s.Data[q]
		} else {
			p[i] = TailByte(q - int64(len(s.Data)))
		}
	}
	s.Pos += int64(n)
	s.dataCalls++
	if s.dataCalls >= 2 {
		s.MultiCall = true
	}
	if s.Pos >= limit {
		if s.FaultAt >= 0 && s.Pos >= s.FaultAt {
			if s.FaultWithData {
				s.failed = true
				return n, ErrInjected
			}
		} else if s.DataWithEOF {
			return n, io.EOF
		}
	}
	return n, nil
}
