// Package src provides the instrumented io.Reader used as image source:
// it implements only io.Reader, follows a read-segmentation schedule, can
// inject a sticky I/O fault at a byte position, can return the final data
// together with io.EOF, can append a lazily generated payload, and logs
// every call.
package src

import (
	"bufio"
	"bytes"
	"errors"
	"fmt"
	"io"
	"os"
	"reflect"
	"strings"
)

// ErrInjected is the injected I/O error.
var ErrInjected = errors.New("injected I/O fault")

// timeoutErr is a net.Error-style temporary timeout
type timeoutErr struct{}

func (timeoutErr) Error() string   { return "i/o timeout (injected)" }
func (timeoutErr) Timeout() bool   { return true }
func (timeoutErr) Temporary() bool { return true }

// listErr is an aggregate error returned by value (like go/scanner.ErrorList): a slice type, so two of them can not
// be compared with ==
type listErr []string

func (e listErr) Error() string { return "injected: " + strings.Join(e, "; ") }

// detailErr is a struct error holding a slice: not comparable either
type detailErr struct {
	Op    string
	Notes []string
}

func (e detailErr) Error() string { return e.Op + ": injected fault with details" }

// SameErr reports whether got is (or wraps) want, without ever comparing uncomparable values with ==.
func SameErr(got, want error) bool {
	if got == nil || want == nil {
		return got == nil && want == nil
	}
	if errors.Is(got, want) {
		return true
	}
	return reflect.TypeOf(got) == reflect.TypeOf(want) && got.Error() == want.Error()
}

// FaultErrs are the error values a Source can fail with: an ordinary error, errors that loaders might be
// tempted to treat as "end of data" (io.ErrUnexpectedEOF, an error wrapping io.EOF), a closed pipe, a timeout.
var FaultErrs = map[string]error{
	"":               ErrInjected,
	"unexpected-eof": io.ErrUnexpectedEOF,
	"wrapped-eof":    fmt.Errorf("read tcp 10.0.0.1:443: %w", io.EOF),
	"closed-pipe":    io.ErrClosedPipe,
	"timeout":        timeoutErr{},
	"list":           listErr{"first problem", "second problem"},
	"detail":         detailErr{Op: "read", Notes: []string{"sector 7"}},
}

// FaultErrNames in a fixed order.
var FaultErrNames = []string{"", "unexpected-eof", "wrapped-eof", "closed-pipe", "timeout", "list", "detail"}

type Source struct {
	Data          []byte
	Tail          int64  // lazily generated payload bytes following Data
	Sizes         []int  // segment sizes, cycled; nil = deliver as requested
	FaultAt       int64  // < 0: none
	FaultWithData bool   // the call reaching FaultAt returns its bytes together with the error
	FaultErr      string // key into FaultErrs ("" = ErrInjected)
	DataWithEOF   bool   // the final bytes are returned together with io.EOF
	// ZeroEvery > 1: every ZeroEvery-th data-bearing call returns (0, nil) instead and delivers nothing ("nothing
	// happened" in the words of io.Reader; never twice in a row, so every standard wrapper makes progress)
	ZeroEvery int

	Pos        int64
	Calls      int
	ShortCalls int  // calls that returned fewer bytes than requested while more were available
	MultiCall  bool // input delivered in >= 2 data-bearing calls
	dataCalls  int
	zeroCtr    int
	sizeIdx    int
	failed     bool
}

func New(data []byte) *Source { return &Source{Data: data, FaultAt: -1} }

func (s *Source) total() int64 { return int64(len(s.Data)) + s.Tail }

// Err returns the error value this source fails with.
func (s *Source) Err() error { return FaultErrs[s.FaultErr] }

// TailByte is the deterministic content of the lazy payload.
func TailByte(i int64) byte { return byte(i*7+i>>9) | 1 }

func (s *Source) Read(p []byte) (int, error) {
	s.Calls++
	if len(p) == 0 {
		return 0, nil
	}
	if s.failed {
		return 0, s.Err()
	}
	limit := s.total()
	if s.FaultAt >= 0 && s.FaultAt < limit {
		limit = s.FaultAt
	}
	if s.Pos >= limit {
		if s.FaultAt >= 0 && s.Pos >= s.FaultAt {
			s.failed = true
			return 0, s.Err()
		}
		return 0, io.EOF
	}
	if s.ZeroEvery > 1 {
		s.zeroCtr++
		if s.zeroCtr%s.ZeroEvery == 0 {
			return 0, nil
		}
	}
	n := len(p)
	if len(s.Sizes) > 0 {
		k := s.Sizes[s.sizeIdx%len(s.Sizes)]
		s.sizeIdx++
		if k < 1 {
			k = 1
		}
		if k < n {
			n = k
		}
	}
	if int64(n) > limit-s.Pos {
		n = int(limit - s.Pos)
	}
	if n < len(p) && s.Pos+int64(n) < limit {
		s.ShortCalls++
	}
	for i := 0; i < n; i++ {
		q := s.Pos + int64(i)
		if q < int64(len(s.Data)) {
			p[i] = s.Data[q]
		} else {
			p[i] = TailByte(q - int64(len(s.Data)))
		}
	}
	s.Pos += int64(n)
	s.dataCalls++
	if s.dataCalls >= 2 {
		s.MultiCall = true
	}
	if s.Pos >= limit {
		if s.FaultAt >= 0 && s.Pos >= s.FaultAt {
			if s.FaultWithData {
				s.failed = true
				return n, s.Err()
			}
		} else if s.DataWithEOF {
			return n, io.EOF
		}
	}
	return n, nil
}

// StdKinds lists the standard-library reader types that Std can build.
var StdKinds = []string{"bytes.Reader", "bytes.Buffer", "strings.Reader", "bufio.Reader", "os.File", "io.SectionReader", "os.Pipe"}

// Std builds a standard-library reader of the named dynamic type holding prefix unrelated bytes followed by
// data, positioned just after the prefix (as when an image is embedded in a container or follows another
// one in a stream).  remaining reports how many input bytes have not been handed out yet (-1 if unknown).
// Code under test must not behave differently for any of these types or positions.
func Std(kind string, prefix int, data []byte, scratchDir string) (r io.Reader, remaining func() int, cleanup func()) {
	all := append(bytes.Repeat([]byte("CONTAINER-HEADER "), prefix/17+1)[:prefix], data...)
	cleanup = func() {}
	switch kind {
	case "bytes.Buffer":
		b := bytes.NewBuffer(all)
		b.Next(prefix)
		return b, b.Len, cleanup
	case "strings.Reader":
		sr := strings.NewReader(string(all))
		_, _ = sr.Seek(int64(prefix), io.SeekStart)
		return sr, sr.Len, cleanup
	case "bufio.Reader":
		// buffer sizes from tiny to larger than most headers, the default among them
		br := bufio.NewReaderSize(bytes.NewReader(all), []int{64, 16, 4096, 100, 4096, 65536}[(len(data)/3+prefix)%6])
		_, _ = br.Discard(prefix)
		return br, func() int { return -1 }, cleanup
	case "os.File":
		_ = os.MkdirAll(scratchDir, 0o755)
		// files have names, and a name may say anything about the content: an extension of another (or the same)
		// image format, upper case, none at all
		exts := []string{"", ".bin", ".png", ".jpg", ".jpeg", ".webp", ".JPG", ".PNG", ".icc", ".gif"}
		f, err := os.CreateTemp(scratchDir, "src-*"+exts[(len(data)+prefix)%len(exts)])
		if err == nil {
			_, _ = f.Write(all)
			_, _ = f.Seek(int64(prefix), io.SeekStart)
			return f, func() int {
				if pos, err := f.Seek(0, io.SeekCurrent); err == nil {
					return len(all) - int(pos)
				}
				return -1
			}, func() { f.Close(); os.Remove(f.Name()) }
		}
	case "os.Pipe":
		// an *os.File that is not a regular file (piped stdin, a FIFO): it has Seek and Stat methods like any file,
		// but Seek fails and Stat reports size 0
		pr, pw, err := os.Pipe()
		if err == nil {
			go func() {
				_, _ = pw.Write(all)
				_ = pw.Close()
			}()
			_, _ = io.CopyN(io.Discard, pr, int64(prefix))
			return pr, func() int { return -1 }, func() { pr.Close() }
		}
	case "io.SectionReader":
		sr := io.NewSectionReader(bytes.NewReader(all), 0, int64(len(all)))
		_, _ = sr.Seek(int64(prefix), io.SeekStart)
		return sr, func() int {
			if pos, err := sr.Seek(0, io.SeekCurrent); err == nil {
				return len(all) - int(pos)
			}
			return -1
		}, cleanup
	}
	br := bytes.NewReader(all)
	_, _ = br.Seek(int64(prefix), io.SeekStart)
	return br, br.Len, cleanup
}

// Seekable is a Source that additionally implements io.Seeker (like a file on a slow medium: seekable AND
// free to return short reads).  Seeking is relative to the start of Data; faults and the lazy tail are kept.
type Seekable struct{ *Source }

func (s Seekable) Seek(offset int64, whence int) (int64, error) {
	var abs int64
	switch whence {
	case io.SeekStart:
		abs = offset
	case io.SeekCurrent:
		abs = s.Pos + offset
	case io.SeekEnd:
		abs = s.total() + offset
	default:
		return 0, errors.New("src: invalid whence")
	}
	if abs < 0 {
		return 0, errors.New("src: negative position")
	}
	s.Pos = abs
	return abs, nil
}
