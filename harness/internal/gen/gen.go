// Package gen holds the rapid generators for well-formed PNG, JPEG and WebP
// files (grammar-based construction, no rejection), shared by C05-C09, C18, C19.
package gen

import (
	"bytes"
	"encoding/binary"
	"fmt"

	"pgregory.net/rapid"

	"verif/internal/build"
)

// File is a generated file together with what a correct reader must report.
type File struct {
	Format  string     `json:"format"` // PNG JPEG WebP
	Data    []byte     `json:"data"`
	W       uint32     `json:"w"`
	H       uint32     `json:"h"`
	Bits    uint32     `json:"bits"`
	ICC     []byte     `json:"icc,omitempty"` // expected profile bytes (nil: none)
	HasICC  bool       `json:"has_icc"`
	NeedEnd int        `json:"need_end"`
	Desc    string     `json:"desc"`
	Pre     int        `json:"pre"` // ancillary structures before the header of interest
	Map     *build.Map `json:"-"`
	// JPEG ICC model information
	Notes []string `json:"notes,omitempty"`
}

// Biased draws an int in [lo,hi] with extra weight on the given special values and on lo/hi.
func Biased(t *rapid.T, label string, lo, hi int, specials ...int) int {
	var sp []int
	for _, s := range specials {
		if s >= lo && s <= hi {
			sp = append(sp, s)
		}
	}
	sp = append(sp, lo, hi)
	if rapid.IntRange(0, 2).Draw(t, label+"?") == 0 {
		return rapid.SampledFrom(sp).Draw(t, label+"!")
	}
	return rapid.IntRange(lo, hi).Draw(t, label)
}

// Payload draws profile-like payload bytes of length n: compressible (short period) or incompressible.
func Payload(t *rapid.T, label string, n int) []byte {
	b := make([]byte, n)
	seed := rapid.Uint64().Draw(t, label+"seed")
	if rapid.Bool().Draw(t, label+"compressible") {
		period := rapid.IntRange(1, 64).Draw(t, label+"period")
		for i := range b {
			b[i] = byte(uint64(i%period)*131 + seed)
		}
		return b
	}
	s := seed | 1
	for i := range b {
		s ^= s << 13
		s ^= s >> 7
		s ^= s << 17
		b[i] = byte(s >> 24)
	}
	return b
}

// ProfilePayload is Payload, except that for n >= 400 half of the payloads are well-formed ICC profiles (v2 or v4
// description, random flags / intent / creator / ID) of about n bytes, some with a size field that disagrees with
// the payload length, some followed by trailing bytes or by zero padding that the size field does not count: the
// embedded bytes are what they are, whatever a profile-aware consumer might think of them.
func ProfilePayload(t *rapid.T, label string, n int) []byte {
	if n < 400 || !rapid.Bool().Draw(t, label+"validprofile") {
		return Payload(t, label, n)
	}
	desc := build.TextDesc(fmt.Sprintf("profile-%d", n))
	if rapid.Bool().Draw(t, label+"v4") {
		desc = build.Mluc([]build.MlucRec{{Lang: [2]byte{'d', 'e'}, Country: [2]byte{'D', 'E'}, Text: "Profil"}, {Lang: [2]byte{'e', 'n'}, Country: [2]byte{'U', 'S'}, Text: fmt.Sprintf("Profile %d", n)}}, nil, nil, 0)
	}
	over := 128 + 4 + 24 + len(desc)
	if n-over < 8 {
		return Payload(t, label, n)
	}
	p := build.SimpleProfile(desc, n-over)
	if rapid.Bool().Draw(t, label+"hdrenums") {
		HeaderFields(t, label, p)
	}
	if rapid.Bool().Draw(t, label+"hdrfields") {
		copy(p[44:48], Payload(t, label+"flags", 4))
		copy(p[64:68], Payload(t, label+"intent", 4))
		copy(p[80:84], Payload(t, label+"creator", 4))
		if rapid.Bool().Draw(t, label+"id") {
			copy(p[84:100], Payload(t, label+"id", 16))
		}
	}
	switch rapid.IntRange(0, 7).Draw(t, label+"sizefield") {
	case 0:
		binary.BigEndian.PutUint32(p, uint32(rapid.IntRange(128, len(p)-1).Draw(t, label+"declared")))
	case 1:
		binary.BigEndian.PutUint32(p, uint32(len(p)+rapid.IntRange(1, 1000).Draw(t, label+"declaredmore")))
	case 2:
		p = append(p, Payload(t, label+"trailer", rapid.IntRange(1, 64).Draw(t, label+"trailerlen"))...)
	case 3:
		p = append(p, make([]byte, rapid.SampledFrom([]int{1, 2, 3, 4, 64}).Draw(t, label+"zeropad"))...) // padding to an alignment
	}
	return p
}

// HeaderFields overwrites the enumerated and calendar fields of the 128-byte header at the start of p with legal
// values: profile class, data colour space, connection space, version, platform, rendering intent, creation date
// and time (any calendar date from 1990 to 2099, leap days and year ends among them, or the all-zero date).  A
// grey profile in a colour image, a printer profile, a v2 link ... are the image author's business, not the
// container's or the reader's.
func HeaderFields(t *rapid.T, label string, p []byte) {
	if len(p) < 128 {
		return
	}
	copy(p[12:16], rapid.SampledFrom([]string{"scnr", "mntr", "prtr", "link", "spac", "abst", "nmcl"}).Draw(t, label+"class"))
	copy(p[16:20], rapid.SampledFrom([]string{"GRAY", "GRAY", "RGB ", "CMYK", "Lab ", "XYZ ", "YCbr", "Luv ", "Yxy ", "HSV ", "HLS ", "CMY ", "2CLR", "6CLR", "FCLR"}).Draw(t, label+"space"))
	copy(p[20:24], rapid.SampledFrom([]string{"XYZ ", "Lab "}).Draw(t, label+"pcs"))
	if string(p[12:16]) == "link" {
		// a DeviceLink profile names its destination device space in this field
		copy(p[20:24], rapid.SampledFrom([]string{"CMYK", "RGB ", "GRAY", "Lab ", "6CLR", "CMY "}).Draw(t, label+"linkdst"))
	}
	copy(p[8:12], rapid.SampledFrom([]string{"\x02\x10\x00\x00", "\x02\x40\x00\x00", "\x04\x00\x00\x00", "\x04\x20\x00\x00", "\x04\x30\x00\x00", "\x04\x40\x00\x00", "\x05\x00\x00\x00"}).Draw(t, label+"version"))
	copy(p[40:44], rapid.SampledFrom([]string{"APPL", "MSFT", "SGI ", "SUNW", "\x00\x00\x00\x00"}).Draw(t, label+"platform"))
	binary.BigEndian.PutUint32(p[64:], uint32(rapid.IntRange(0, 3).Draw(t, label+"intent")))
	var d [6]int
	switch rapid.IntRange(0, 5).Draw(t, label+"datekind") {
	case 0: // not set
	case 1: // leap days and their neighbours, century years among them
		y := rapid.SampledFrom([]int{1992, 1996, 2000, 2000, 2004, 2020, 2024, 2096}).Draw(t, label+"leapyear")
		d = [6]int{y, 2, 29, rapid.IntRange(0, 23).Draw(t, label+"h"), rapid.IntRange(0, 59).Draw(t, label+"mi"), rapid.IntRange(0, 59).Draw(t, label+"s")}
	case 2: // ends of months and years, last second of the day
		m := rapid.IntRange(1, 12).Draw(t, label+"month")
		last := []int{31, 28, 31, 30, 31, 30, 31, 31, 30, 31, 30, 31}[m-1]
		d = [6]int{rapid.IntRange(1990, 2099).Draw(t, label+"year"), m, last, 23, 59, 59}
	default:
		d = [6]int{rapid.IntRange(1990, 2099).Draw(t, label+"year"), rapid.IntRange(1, 12).Draw(t, label+"month"), rapid.IntRange(1, 28).Draw(t, label+"day"),
			rapid.IntRange(0, 23).Draw(t, label+"h"), rapid.IntRange(0, 59).Draw(t, label+"mi"), rapid.IntRange(0, 59).Draw(t, label+"s")}
	}
	for i, v := range d {
		binary.BigEndian.PutUint16(p[24+2*i:], uint16(v))
	}
}

var sizeSpecials = []int{1, 2, 3, 255, 256, 511, 512, 1023, 1024, 2047, 2048, 4095, 4096, 4097, 8191, 8192, 8193, 16383, 16384, 32767, 32768, 65518, 65519, 65520, 65521, 65535, 65536, 65537, 131037, 131038, 131039, 131072, 262144, 1<<20 - 1, 1 << 20}

// ICCSize draws a payload size, boundary biased, up to max.
func ICCSize(t *rapid.T, label string, max int) int {
	switch rapid.IntRange(0, 6).Draw(t, label+"class") {
	case 6:
		// a payload that ends within 4 bytes of a multiple of 4096 in the file when it starts right after a fixed
		// header: WebP ICCP (payload at offset 38), a JPEG chunk in the first APP2 segment (offset 20), PNG
		// (compressed, so only roughly)
		k := rapid.IntRange(1, 4).Draw(t, label+"blk")
		v := 4096*k - rapid.SampledFrom([]int{38, 20, 0}).Draw(t, label+"hdr") + rapid.IntRange(-4, 4).Draw(t, label+"bd")
		if v > max {
			v = max
		}
		if v < 1 {
			v = 1
		}
		return v
	case 0:
		return rapid.IntRange(1, 600).Draw(t, label)
	case 1, 2:
		var sp []int
		for _, s := range sizeSpecials {
			if s <= max {
				sp = append(sp, s)
			}
		}
		return rapid.SampledFrom(sp).Draw(t, label+"special")
	case 3:
		hi := 70000
		if hi > max {
			hi = max
		}
		return rapid.IntRange(1, hi).Draw(t, label+"mid")
	case 4:
		k := rapid.IntRange(1, 4).Draw(t, label+"k")
		v := 65519*k + rapid.IntRange(-1, 1).Draw(t, label+"d")
		if v > max {
			v = max
		}
		return v
	}
	return rapid.IntRange(1, max).Draw(t, label+"big")
}

func dim31(t *rapid.T, label string) uint32 {
	switch rapid.IntRange(0, 4).Draw(t, label+"class") {
	case 0:
		return uint32(rapid.IntRange(1, 64).Draw(t, label+"small"))
	case 1:
		k := rapid.IntRange(0, 30).Draw(t, label+"pow")
		v := uint32(1) << uint(k)
		if rapid.Bool().Draw(t, label+"m1") && v > 1 {
			v--
		}
		return v
	case 2:
		return 1<<31 - 1
	case 3:
		// few bits set
		var v uint32
		for i := 0; i < 3; i++ {
			v |= 1 << uint(rapid.IntRange(0, 30).Draw(t, label+"bit"))
		}
		return v
	}
	return uint32(rapid.IntRange(1, 1<<31-1).Draw(t, label))
}

func dimN(t *rapid.T, label string, bits uint, min uint32) uint32 {
	max := uint32(1)<<bits - 1
	switch rapid.IntRange(0, 3).Draw(t, label+"class") {
	case 0:
		return min + uint32(rapid.IntRange(0, 64).Draw(t, label+"small"))
	case 1:
		k := rapid.IntRange(0, int(bits)-1).Draw(t, label+"pow")
		v := uint32(1) << uint(k)
		if rapid.Bool().Draw(t, label+"m1") {
			v--
		}
		if v < min {
			v = min
		}
		return v
	case 2:
		return max
	}
	return uint32(rapid.IntRange(int(min), int(max)).Draw(t, label))
}

// chunkLen draws an ancillary payload length so that later structures straddle a multiple of 4096 (or of 8, 16, 32, 64 KiB).
func chunkLen(t *rapid.T, label string, pos int, max int) int {
	if max < 0 {
		max = 0
	}
	if rapid.IntRange(0, 2).Draw(t, label+"straddle") == 0 {
		// place the end of this chunk (pos + 8 + n + 4 for PNG-like framing) within +-6 of a 4096 boundary
		// (mostly the next multiple of 4096; sometimes of a larger power of two - readers, probes and scratch
		// buffers come in 8, 16, 32 and 64 KiB too)
		blk := rapid.SampledFrom([]int{4096, 4096, 4096, 4096, 8192, 16384, 16384, 32768, 65536}).Draw(t, label+"block")
		target := ((pos+12)/blk+1)*blk + rapid.IntRange(-7, 7).Draw(t, label+"delta")
		n := target - pos - 12
		if n >= 0 && (n <= max || (blk > 4096 && max >= 300 && n <= 65000)) { // 65000: still fits a JPEG segment
			return n
		}
	}
	hi := 300
	if hi > max {
		hi = max
	}
	return rapid.IntRange(0, hi).Draw(t, label)
}

var pngAncillary = []string{"gAMA", "cHRM", "sRGB", "pHYs", "tIME", "tEXt", "zTXt", "iTXt", "bKGD", "sBIT", "prVt", "vpAg",
	"tRNS", "sPLT", "eXIf", "oFFs", "pCAL", "sCAL", "sTER", "acTL", "cICP", "mDCv", "cLLi", "bKGD", "tRNS",
	// private / unknown types one letter away from iCCP: they are not profiles
	"iCCp", "icCP", "iCCQ", "iCCN"}

// PNGAncillary draws the type of an ancillary chunk that may legally stand between IHDR and PLTE/IDAT in a PNG of
// the given colour type (so also before or after iCCP), and a fixed data length where the chunk type has one that
// decoders check (fixed < 0: any length).  tRNS and bKGD must follow PLTE in palette images and tRNS is not allowed
// with an alpha channel; they are replaced by tEXt there.
func PNGAncillary(t *rapid.T, label string, colorType byte) (typ string, fixed int) {
	typ = rapid.SampledFrom(pngAncillary).Draw(t, label)
	switch typ {
	case "tRNS":
		switch colorType {
		case 0:
			return typ, 2
		case 2:
			return typ, 6
		}
		return "tEXt", -1
	case "bKGD":
		switch colorType {
		case 0, 4:
			return typ, 2
		case 2, 6:
			return typ, 6
		}
		return "tEXt", -1
	}
	return typ, -1
}

// PNGOpts controls GenPNG.
type Opts struct {
	ICC      int // 0 random, 1 force, 2 forbid
	MaxICC   int
	SmallDim bool // keep dimensions decodable by the standard decoder
}

func wantICC(t *rapid.T, o Opts) bool {
	switch o.ICC {
	case 1:
		return true
	case 2:
		return false
	}
	return rapid.Bool().Draw(t, "withicc")
}

func PNG(t *rapid.T, o Opts) File {
	pair := rapid.SampledFrom(build.LegalPNG).Draw(t, "pngtype")
	p := build.PNG{ColorType: pair[0], Depth: pair[1], Interlace: byte(rapid.IntRange(0, 1).Draw(t, "interlace"))}
	if o.SmallDim {
		p.W, p.H = uint32(rapid.IntRange(1, 5000).Draw(t, "w")), uint32(rapid.IntRange(1, 5000).Draw(t, "h"))
	} else {
		p.W, p.H = dim31(t, "w"), dim31(t, "h")
	}
	f := File{Format: "PNG", W: p.W, H: p.H, Bits: uint32(p.Depth)}
	n := rapid.IntRange(0, 6).Draw(t, "nanc")
	iccAt := -1
	if wantICC(t, o) {
		iccAt = rapid.IntRange(0, n).Draw(t, "iccat")
	}
	pos := 8 + 25
	addAnc := func(i int) {
		typ, fixed := PNGAncillary(t, "anctype", p.ColorType)
		ln := chunkLen(t, "anclen", pos, 9000)
		if rapid.IntRange(0, 11).Draw(t, "bigancillary") == 0 {
			ln = rapid.IntRange(66000, 200000).Draw(t, "biganclen") // more than any read-ahead allowance
		}
		if fixed >= 0 {
			ln = fixed
		}
		d := make([]byte, ln)
		for k := range d {
			d[k] = byte(k*7 + i)
		}
		if fixed < 0 && ln < 60000 && rapid.IntRange(0, 2).Draw(t, "realanc") == 0 {
			// the payloads real writers put there
			v := rapid.IntRange(0, 999).Draw(t, "ancvar")
			switch typ {
			case "eXIf":
				d = build.Vocab("exif", v).Data[6:]
			case "iTXt":
				d = append([]byte("XML:com.adobe.xmp\x00\x00\x00\x00\x00"), build.Vocab("xmp", v).Data[29:]...)
			case "tEXt":
				d = []byte(fmt.Sprintf("Software\x00encoder %d", v))
			case "zTXt":
				d = append([]byte("Raw profile type icc\x00\x00"), build.ICCPChunk("x", build.SimpleProfile(build.TextDesc("ztxt"), v%9), 6).Data[3:]...)
			case "iCCp", "icCP", "iCCQ", "iCCN":
				d = build.ICCPChunk("not a profile chunk", build.SimpleProfile(build.TextDesc("decoy"), v%9), 6).Data
			}
			ln = len(d)
		}
		p.Pre = append(p.Pre, build.Chunk{Type: typ, Data: d})
		pos += 12 + ln
	}
	for i := 0; i <= n; i++ {
		if i == iccAt {
			max := o.MaxICC
			if max == 0 {
				max = 1 << 20
			}
			size := ICCSize(t, "iccsize", max)
			f.ICC = ProfilePayload(t, "icc", size)
			size = len(f.ICC)
			f.HasICC = true
			nameLen := Biased(t, "namelen", 1, 79, 1, 2, 78, 79)
			name := make([]byte, nameLen)
			for k := range name {
				name[k] = byte(rapid.IntRange(0x20, 0xFF).Draw(t, "namech"))
				if name[k] >= 0x7F && name[k] <= 0xA0 {
					name[k] = 'n'
				}
			}
			level := rapid.SampledFrom([]int{0, 1, 6, 9, -2, -10, -11, -12}).Draw(t, "level")
			c := build.ICCPChunk(string(name), f.ICC, level)
			p.Pre = append(p.Pre, c)
			pos += 12 + len(c.Data)
			f.Notes = append(f.Notes, fmt.Sprintf("iCCP name %d bytes, level %d, %d compressed bytes, profile %d bytes", nameLen, level, len(c.Data)-nameLen-2, size))
		}
		if i < n {
			addAnc(i)
		}
	}
	f.Pre = len(p.Pre)
	ne := 0
	switch p.ColorType {
	case 3:
		ne = rapid.IntRange(1, 1<<p.Depth).Draw(t, "plte")
	case 2, 6:
		// truecolour images may carry a suggested palette (PNG 11.2.3)
		if rapid.IntRange(0, 2).Draw(t, "suggestedplte") == 0 {
			ne = Biased(t, "splte", 1, 256, 1, 2, 255, 256)
		}
	}
	if ne > 0 {
		pd := make([]byte, 3*ne)
		for k := range pd {
			pd[k] = byte(k*5 + ne)
		}
		p.Pre = append(p.Pre, build.Chunk{Type: "PLTE", Data: pd})
		f.Notes = append(f.Notes, fmt.Sprintf("PLTE with %d entries", ne))
		// chunks that may only stand between the palette and the image data
		for k := rapid.IntRange(0, 3).Draw(t, "nafterplte"); k > 0; k-- {
			typ := rapid.SampledFrom([]string{"tRNS", "bKGD", "hIST", "tEXt", "pHYs", "sPLT", "tIME", "eXIf"}).Draw(t, "afterplte")
			ln := rapid.IntRange(0, 600).Draw(t, "afterpltelen")
			switch typ {
			case "tRNS":
				switch p.ColorType {
				case 3:
					ln = rapid.IntRange(1, ne).Draw(t, "trnslen")
				case 2:
					ln = 6
				default:
					typ = "tEXt"
				}
			case "bKGD":
				ln = 6
				if p.ColorType == 3 {
					ln = 1
				}
			case "hIST":
				ln = 2 * ne
			case "pHYs":
				ln = 9
			case "tIME":
				ln = 7
			}
			d := make([]byte, ln)
			for i := range d {
				d[i] = byte(i*11 + k)
			}
			if typ == "bKGD" && p.ColorType == 3 {
				d[0] = 0
			}
			p.Pre = append(p.Pre, build.Chunk{Type: typ, Data: d})
		}
	}
	p.IDAT = make([]byte, rapid.IntRange(0, 40).Draw(t, "idat"))
	for k := range p.IDAT {
		p.IDAT[k] = byte(0x78 + k)
	}
	f.Data, f.Map = p.Bytes()
	f.NeedEnd = f.Map.Marks["needEnd"]
	f.Desc = fmt.Sprintf("PNG ct=%d depth=%d interlace=%d %dx%d, %d pre-IDAT chunks, icc=%v", p.ColorType, p.Depth, p.Interlace, p.W, p.H, len(p.Pre), f.HasICC)
	return f
}

func jpegFiller(t *rapid.T, i int, pos int) build.Seg {
	kind := rapid.IntRange(0, 13).Draw(t, "segkind")
	if kind >= 10 {
		// what cameras, phones and editors really write: JFIF/JFXX, Exif, XMP, MPF, FlashPix, Photoshop resources ...
		return build.Vocab(rapid.SampledFrom(build.VocabKinds).Draw(t, "vocab"), rapid.IntRange(0, 999).Draw(t, "vocabvar"))
	}
	switch kind {
	case 0:
		return build.Seg{Marker: 0xDB, Data: build.DQT(byte(i))}
	case 1:
		return build.Seg{Marker: 0xC4, Data: build.DHT(byte(i&1), byte(i>>1&1))}
	case 2:
		return build.Seg{Marker: 0xDD, Data: []byte{0, byte(i)}}
	case 3:
		// APP2 that is not an ICC chunk (too short or other identifier)
		d := []byte("ICC_PROFILX\x00\x01\x01abc")
		if rapid.Bool().Draw(t, "shortapp2") {
			d = d[:rapid.IntRange(0, 13).Draw(t, "app2len")]
		}
		return build.Seg{Marker: 0xE2, Data: d}
	}
	marker := byte(0xFE)
	if kind < 8 {
		marker = byte(rapid.SampledFrom([]int{0xE0, 0xE1, 0xE3, 0xE4, 0xE5, 0xE6, 0xE7, 0xE8, 0xE9, 0xEA, 0xEB, 0xEC, 0xED, 0xEE, 0xEF}).Draw(t, "appn"))
	}
	var ln int
	if rapid.IntRange(0, 5).Draw(t, "maxseg") == 0 {
		ln = rapid.SampledFrom([]int{0, 1, 65533, 65532}).Draw(t, "seglenx")
	} else {
		ln = chunkLen(t, "seglen", pos-8, 9000)
	}
	d := make([]byte, ln)
	for k := range d {
		d[k] = byte(k*13 + i) // includes 0xFF, 0xFF 0xD8 .. 0xFF 0xDA look-alikes: payloads are length-delimited
	}
	return build.Seg{Marker: marker, Data: d}
}

// JPEGLayout is the ICC part of a generated JPEG (used by C06's damage model).
type JPEGLayout struct {
	Parts [][]byte
	Order []int // order in which chunk indices appear in the file
}

func JPEG(t *rapid.T, o Opts) (File, JPEGLayout) {
	var lay JPEGLayout
	f := File{Format: "JPEG", Bits: 8}
	sofMarker := byte(rapid.SampledFrom([]int{0xC0, 0xC2}).Draw(t, "sof"))
	ncomp := rapid.SampledFrom([]int{1, 3, 4}).Draw(t, "ncomp")
	var comps [][3]byte
	std := rapid.IntRange(0, 3).Draw(t, "stdsampling") > 0
	for i := 0; i < ncomp; i++ {
		hv := byte(0x11)
		if std {
			if i == 0 && ncomp == 3 {
				hv = byte(rapid.SampledFrom([]int{0x11, 0x21, 0x22, 0x12, 0x41, 0x42}).Draw(t, "hv0"))
			}
			if i == 0 && ncomp == 4 {
				hv = byte(rapid.SampledFrom([]int{0x11, 0x22}).Draw(t, "hv0"))
			}
			if i == 3 {
				hv = comps[0][1]
			}
		} else {
			hv = byte(rapid.IntRange(1, 4).Draw(t, "h")<<4 | rapid.IntRange(1, 4).Draw(t, "v"))
		}
		comps = append(comps, [3]byte{byte(i + 1), hv, byte(i & 1)})
	}
	h, w := uint16(dimN(t, "h", 16, 1)), uint16(dimN(t, "w", 16, 1))
	f.W, f.H = uint32(w), uint32(h)
	precision := byte(8)
	if sofMarker == 0xC2 && rapid.IntRange(0, 4).Draw(t, "precision12") == 0 {
		precision = 12 // legal for SOF2; the standard library's decoder refuses it (counted as decoder_unconfirmed)
		f.Bits = 12
	}
	sof := build.Seg{Marker: sofMarker, Data: build.SOF(precision, h, w, comps)}

	var icc []build.Seg
	if wantICC(t, o) {
		max := o.MaxICC
		if max == 0 {
			max = 1 << 20
		}
		size := ICCSize(t, "iccsize", max)
		f.ICC = ProfilePayload(t, "icc", size)
		size = len(f.ICC) // a profile payload may carry trailing bytes beyond the requested size
		f.HasICC = true
		// partition into 1..255 chunks of 1..65519 bytes
		minChunks := (size + 65518) / 65519
		maxChunks := size
		if maxChunks > 255 {
			maxChunks = 255
		}
		if maxChunks < minChunks {
			maxChunks = minChunks
		}
		nch := minChunks
		switch rapid.IntRange(0, 3).Draw(t, "nchunksclass") {
		case 0:
			nch = minChunks
		case 1:
			nch = maxChunks
			if nch > 12 && minChunks <= 12 && rapid.Bool().Draw(t, "notmax") {
				nch = 12
			}
		default:
			hi := maxChunks
			if hi > minChunks+6 {
				hi = minChunks + 6
			}
			nch = rapid.IntRange(minChunks, hi).Draw(t, "nchunks")
		}
		// sizes: cut points
		rest := f.ICC
		for i := 0; i < nch; i++ {
			left := nch - i - 1
			lo := len(rest) - left*65519
			if lo < 1 {
				lo = 1
			}
			hi := len(rest) - left
			if hi > 65519 {
				hi = 65519
			}
			n := hi
			if left > 0 {
				if lo > hi {
					lo = hi
				}
				n = Biased(t, "chunksize", lo, hi)
			} else {
				n = len(rest)
			}
			lay.Parts = append(lay.Parts, rest[:n])
			rest = rest[n:]
		}
		idx := make([]int, nch)
		for i := range idx {
			idx[i] = i
		}
		switch rapid.IntRange(0, 2).Draw(t, "chunkorder") {
		case 0:
			lay.Order = idx
		case 1:
			for i := nch - 1; i >= 0; i-- {
				lay.Order = append(lay.Order, i)
			}
		default:
			lay.Order = rapid.Permutation(idx).Draw(t, "perm")
		}
		for _, ci := range lay.Order {
			icc = append(icc, build.ICCSeg(byte(ci+1), byte(nch), lay.Parts[ci]))
		}
		f.Notes = append(f.Notes, fmt.Sprintf("ICC %d bytes in %d chunks, order %v", size, nch, truncInts(lay.Order)))
	}
	// interleave: SOF position among the icc chunks, fillers anywhere
	sofAt := rapid.IntRange(0, len(icc)).Draw(t, "sofat")
	var segs []build.Seg
	pos := 2
	fill := func(maxN int) {
		n := rapid.IntRange(0, maxN).Draw(t, "nfill")
		for i := 0; i < n; i++ {
			s := jpegFiller(t, i, pos)
			segs = append(segs, s)
			pos += 4 + len(s.Data)
		}
	}
	pre := 0
	for i := 0; i <= len(icc); i++ {
		if len(icc) < 12 || i == 0 || i == len(icc) {
			fill(2)
		}
		if i == sofAt {
			pre = len(segs)
			segs = append(segs, sof)
			pos += 4 + len(sof.Data)
		}
		if i < len(icc) {
			segs = append(segs, icc[i])
			pos += 4 + len(icc[i].Data)
		}
	}
	f.Pre = pre
	if rapid.IntRange(0, 2).Draw(t, "tailfill") == 0 {
		fill(3)
	}
	// a fifth of the files have 0xFF fill bytes before some of their markers (T.81 B.1.1.2)
	sosFill := 0
	if rapid.IntRange(0, 4).Draw(t, "fillbytes") == 0 {
		for i := range segs {
			if rapid.IntRange(0, 2).Draw(t, "fillhere") == 0 {
				segs[i].Fill = rapid.SampledFrom([]int{1, 1, 2, 3, 7, 100}).Draw(t, "nfillbytes")
			}
		}
		sosFill = rapid.SampledFrom([]int{0, 1, 5}).Draw(t, "sosfill")
		f.Notes = append(f.Notes, "fill bytes before some markers")
	}
	j := build.JPEG{Segs: segs, SOSFill: sosFill, SOS: append([]byte{byte(ncomp)}, make([]byte, 2*ncomp+3)...), Entropy: []byte{0x12, 0xFF, 0x34, 0x00, 0x56}}
	f.Data, f.Map = j.Bytes()
	sofEnd, lastICC := f.Map.Marks["sofEnd"], f.Map.Marks["lastICCEnd"]
	if f.HasICC {
		f.NeedEnd = sofEnd
		if lastICC > sofEnd {
			f.NeedEnd = lastICC
		}
	} else {
		f.NeedEnd = f.Map.Marks["sosHeaderEnd"]
	}
	f.Desc = fmt.Sprintf("JPEG SOF%X %d comps %dx%d, %d segments (SOF at %d), icc=%v", sofMarker&0xF, ncomp, w, h, len(segs), pre, f.HasICC)
	if !std {
		f.Notes = append(f.Notes, "non-standard sampling factors")
	}
	return f, lay
}

func truncInts(v []int) []int {
	if len(v) > 12 {
		return v[:12]
	}
	return v
}

func WebP(t *rapid.T, o Opts) File {
	f := File{Format: "WebP", Bits: 8}
	var w build.WebP
	kind := rapid.SampledFrom([]string{"VP8 ", "VP8L", "VP8X", "VP8X"}).Draw(t, "webpkind")
	if o.ICC == 1 {
		kind = "VP8X"
	}
	body := func(n int) []byte {
		b := make([]byte, n)
		for i := range b {
			b[i] = byte(i*3 + 1)
		}
		return b
	}
	switch kind {
	case "VP8 ":
		ww, hh := uint16(dimN(t, "w", 14, 1)), uint16(dimN(t, "h", 14, 1))
		xs, ys := byte(rapid.IntRange(0, 3).Draw(t, "xscale")), byte(rapid.IntRange(0, 3).Draw(t, "yscale"))
		d := build.VP8Header(ww, hh, xs, ys, rapid.IntRange(8, 40).Draw(t, "partlen"))
		d = append(d, body(rapid.IntRange(0, 30).Draw(t, "vp8body"))...)
		w.Chunks = append(w.Chunks, build.RIFFChunk{FourCC: "VP8 ", Data: d})
		f.W, f.H = uint32(ww), uint32(hh)
	case "VP8L":
		wm, hm := uint16(dimN(t, "w", 14, 0)), uint16(dimN(t, "h", 14, 0))
		d := build.VP8LHeader(wm, hm, rapid.Bool().Draw(t, "alpha"))
		d = append(d, body(rapid.IntRange(0, 30).Draw(t, "vp8lbody"))...)
		w.Chunks = append(w.Chunks, build.RIFFChunk{FourCC: "VP8L", Data: d})
		f.W, f.H = uint32(wm)+1, uint32(hm)+1
	default:
		wm := dimN(t, "w", 24, 0)
		hm := dimN(t, "h", 24, 0)
		// canvas area must fit in 32 bits
		for uint64(wm+1)*uint64(hm+1) > 1<<32-1 {
			hm /= 2
		}
		flags := byte(rapid.IntRange(0, 255).Draw(t, "flags"))
		icc := wantICC(t, o)
		if icc {
			flags |= 0x20
		} else {
			flags &^= 0x20
		}
		w.Chunks = append(w.Chunks, build.RIFFChunk{FourCC: "VP8X", Data: build.VP8XHeader(flags, wm, hm)})
		if icc {
			max := o.MaxICC
			if max == 0 {
				max = 1 << 20
			}
			f.ICC = ProfilePayload(t, "icc", ICCSize(t, "iccsize", max))
			f.HasICC = true
			if rapid.IntRange(0, 5).Draw(t, "chunkbeforeiccp") == 0 {
				// the ICC flag is set but another chunk stands where the ICCP chunk belongs: the profile is out of place
				// (no profile to expect; what the loader says about it must not depend on how the bytes arrive)
				fc := rapid.SampledFrom([]string{"EXIF", "XMP ", "ANIM", "ALPH", "JUNK"}).Draw(t, "strayfourcc")
				w.Chunks = append(w.Chunks, build.RIFFChunk{FourCC: fc, Data: body(rapid.IntRange(0, 60).Draw(t, "straylen"))})
				f.HasICC = false
				f.Notes = append(f.Notes, "a "+fc+" chunk between VP8X and ICCP")
			}
			w.Chunks = append(w.Chunks, build.RIFFChunk{FourCC: "ICCP", Data: f.ICC})
			if !f.HasICC {
				f.ICC = nil
			}
		}
		for _, fc := range []string{"ANIM", "ALPH", "EXIF", "XMP "} {
			if rapid.IntRange(0, 3).Draw(t, "opt"+fc) == 0 {
				d := body(rapid.IntRange(0, 50).Draw(t, "optlen"))
				if (fc == "EXIF" || fc == "XMP ") && rapid.Bool().Draw(t, "realpayload") {
					// what encoders really store there: a TIFF structure (some with the JPEG-style "Exif\0\0" prefix), an XMP packet
					seg := build.Vocab(map[string]string{"EXIF": "exif", "XMP ": "xmp"}[fc], rapid.IntRange(0, 999).Draw(t, "vocabvar"))
					d = seg.Data
					if fc == "XMP " {
						d = d[29:]
					} else if rapid.Bool().Draw(t, "bareexif") {
						d = d[6:]
					}
				}
				w.Chunks = append(w.Chunks, build.RIFFChunk{FourCC: fc, Data: d})
			}
		}
		if rapid.Bool().Draw(t, "lossy") {
			w.Chunks = append(w.Chunks, build.RIFFChunk{FourCC: "VP8 ", Data: build.VP8Header(uint16(wm&0x3fff), uint16(hm&0x3fff), 0, 0, 8)})
		} else {
			w.Chunks = append(w.Chunks, build.RIFFChunk{FourCC: "VP8L", Data: build.VP8LHeader(uint16(wm&0x3fff), uint16(hm&0x3fff), false)})
		}
		f.W, f.H = wm+1, hm+1
		f.Notes = append(f.Notes, fmt.Sprintf("VP8X flags %#02x", flags))
	}
	f.Data, f.Map = w.Bytes()
	f.NeedEnd = f.Map.Marks["needEnd"]
	f.Desc = fmt.Sprintf("WebP %s %dx%d icc=%v (%d chunks)", kind, f.W, f.H, f.HasICC, len(w.Chunks))
	return f
}

// Any draws a file of any of the three formats.
func Any(t *rapid.T, o Opts) File {
	var f File
	switch rapid.IntRange(0, 2).Draw(t, "format") {
	case 0:
		f = PNG(t, o)
	case 1:
		f, _ = JPEG(t, o)
	default:
		f = WebP(t, o)
	}
	return Trailing(t, f)
}

// Trailing appends, to an eighth of the files, something that follows the image in the stream: zeros, junk, or the
// first bytes of another image.  Nothing a loader is asked for depends on it.
func Trailing(t *rapid.T, f File) File {
	switch rapid.IntRange(0, 23).Draw(t, "trailing") {
	case 0:
		f.Data = append(append([]byte(nil), f.Data...), make([]byte, rapid.SampledFrom([]int{1, 2, 100, 5000}).Draw(t, "trailzeros"))...)
		f.Notes = append(f.Notes, "trailing zeros")
		f.Desc += " + trailing zeros"
	case 1:
		f.Data = append(append([]byte(nil), f.Data...), Payload(t, "trailjunk", rapid.SampledFrom([]int{1, 3, 4096, 9000}).Draw(t, "trailjunklen"))...)
		f.Notes = append(f.Notes, "trailing junk")
		f.Desc += " + trailing junk"
	case 2:
		f.Data = append(append([]byte(nil), f.Data...), build.PNGSig...)
		f.Data = append(f.Data, 0, 0, 0, 13, 'I', 'H', 'D', 'R', 0, 0, 0, 9, 0, 0, 0, 9, 8, 2, 0, 0, 0)
		f.Notes = append(f.Notes, "followed by the start of a PNG")
		f.Desc += " + the start of a PNG"
	}
	return f
}

var _ = bytes.Equal

// LargeHeader builds a well-formed file of the given format whose last needed
// metadata structure ends shortly after byte offset `at` (big ancillary data in
// front of it): JPEG: maximal COM segments before SOF (+ a 2-chunk ICC profile
// after them); PNG: one big tEXt chunk between IHDR and iCCP; WebP: a big ICCP chunk.
func LargeHeader(format string, at int) File {
	f := File{Format: format, Bits: 8, HasICC: true}
	prof := build.SimpleProfile(build.TextDesc("large header"), 64)
	switch format {
	case "JPEG":
		var segs []build.Seg
		for n := at; n > 0; n -= 65537 {
			k := 65533
			if n < 65537 {
				k = n - 4
				if k < 0 {
					k = 0
				}
			}
			segs = append(segs, build.Seg{Marker: 0xFE, Data: make([]byte, k)})
		}
		segs = append(segs, build.ICCSegs(prof, []int{100})...)
		segs = append(segs, build.Seg{Marker: 0xC0, Data: build.SOF(8, 33, 44, [][3]byte{{1, 0x11, 0}})})
		f.W, f.H, f.ICC = 44, 33, prof
		f.Data, f.Map = build.JPEG{Segs: segs, SOS: []byte{1, 1, 0, 0, 63, 0}, Entropy: []byte{1, 2}}.Bytes()
		f.NeedEnd = f.Map.Marks["sofEnd"]
	case "PNG":
		p := build.PNG{W: 44, H: 33, Depth: 8, ColorType: 2, Pre: []build.Chunk{{Type: "tEXt", Data: make([]byte, at)}, build.ICCPChunk("p", prof, 6)}, IDAT: []byte{1}}
		f.W, f.H, f.ICC = 44, 33, prof
		f.Data, f.Map = p.Bytes()
		f.NeedEnd = f.Map.Marks["needEnd"]
	default:
		big := build.SimpleProfile(build.TextDesc("large header"), at)
		w := build.WebP{Chunks: []build.RIFFChunk{{FourCC: "VP8X", Data: build.VP8XHeader(0x20, 43, 32)}, {FourCC: "ICCP", Data: big}, {FourCC: "VP8L", Data: build.VP8LHeader(43, 32, false)}}}
		f.W, f.H, f.ICC = 44, 33, big
		f.Data, f.Map = w.Bytes()
		f.NeedEnd = f.Map.Marks["needEnd"]
	}
	f.Desc = fmt.Sprintf("%s whose metadata ends at offset %d (large ancillary data first)", format, f.NeedEnd)
	return f
}
