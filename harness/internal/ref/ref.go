// Package ref holds the independent float64 colour mathematics used as oracle.
// Nothing here imports prism: formulas and constants are transcribed from the
// published standards.
package ref

import "math"

// Space identifies one of the four supported RGB spaces.
type Space int

const (
	SRGB Space = iota
	AdobeRGB
	ProPhoto
	DisplayP3
	NSpaces
)

var SpaceNames = [NSpaces]string{"srgb", "adobergb", "prophotorgb", "displayp3"}

func (s Space) String() string { return SpaceNames[s] }

// EOTF: encoded (0..1) -> linear (0..1), per the published standard.
func EOTF(s Space, v float64) float64 {
	switch s {
	case SRGB, DisplayP3:
		// IEC 61966-2-1
		if v <= 0.04045 {
			return v / 12.92
		}
		return math.Pow((v+0.055)/1.055, 2.4)
	case AdobeRGB:
		// Adobe RGB (1998): gamma 2.19921875 = 563/256
		if v <= 0 {
			return 0
		}
		return math.Pow(v, 2.19921875)
	case ProPhoto:
		// ROMM RGB: Et = 1/512; below 16*Et linear with slope 1/16, else ^1.8
		const et = 1.0 / 512
		if v < 16*et {
			return v / 16
		}
		return math.Pow(v, 1.8)
	}
	panic("bad space")
}

// OETF: linear (0..1) -> encoded (0..1).  Input outside [0,1] is clamped first.
func OETF(s Space, v float64) float64 {
	if v <= 0 {
		return 0
	}
	if v >= 1 {
		return 1
	}
	switch s {
	case SRGB, DisplayP3:
		if v <= 0.0031308 {
			return v * 12.92
		}
		return 1.055*math.Pow(v, 1/2.4) - 0.055
	case AdobeRGB:
		return math.Pow(v, 1/2.19921875)
	case ProPhoto:
		const et = 1.0 / 512
		if v < et {
			return 16 * v
		}
		return math.Pow(v, 1/1.8)
	}
	panic("bad space")
}

// XY is a chromaticity.
type XY struct{ X, Y float64 }

// Published chromaticities (the standards publish 4 decimals except ROMM).
type SpaceDef struct {
	R, G, B, W XY
}

var (
	// CIE D65 / D50 chromaticities as published (4 decimals, and the 5-decimal CIE 15 values).
	D65 = XY{0.3127, 0.3290}
	D50 = XY{0.3457, 0.3585}

	Published = [NSpaces]SpaceDef{
		SRGB:      {XY{0.64, 0.33}, XY{0.30, 0.60}, XY{0.15, 0.06}, D65},
		AdobeRGB:  {XY{0.64, 0.33}, XY{0.21, 0.71}, XY{0.15, 0.06}, D65},
		ProPhoto:  {XY{0.7347, 0.2653}, XY{0.1596, 0.8404}, XY{0.0366, 0.0001}, D50},
		DisplayP3: {XY{0.68, 0.32}, XY{0.265, 0.69}, XY{0.15, 0.06}, D65},
	}
)

// M3 is a row-major 3x3 matrix.
type M3 [3][3]float64
type V3 [3]float64

func (m M3) MulV(v V3) V3 {
	var o V3
	for i := 0; i < 3; i++ {
		o[i] = m[i][0]*v[0] + m[i][1]*v[1] + m[i][2]*v[2]
	}
	return o
}

func (m M3) Mul(o M3) M3 {
	var r M3
	for i := 0; i < 3; i++ {
		for j := 0; j < 3; j++ {
			r[i][j] = m[i][0]*o[0][j] + m[i][1]*o[1][j] + m[i][2]*o[2][j]
		}
	}
	return r
}

func (m M3) T() M3 {
	var r M3
	for i := 0; i < 3; i++ {
		for j := 0; j < 3; j++ {
			r[i][j] = m[j][i]
		}
	}
	return r
}

func Identity() M3 { return M3{{1, 0, 0}, {0, 1, 0}, {0, 0, 1}} }

// Inv inverts by Gauss-Jordan elimination with partial pivoting.  ok is false
// for a singular matrix.
func (m M3) Inv() (inv M3, ok bool) {
	var a [3][6]float64
	for i := 0; i < 3; i++ {
		for j := 0; j < 3; j++ {
			a[i][j] = m[i][j]
		}
		a[i][3+i] = 1
	}
	for c := 0; c < 3; c++ {
		p := c
		for r := c + 1; r < 3; r++ {
			if math.Abs(a[r][c]) > math.Abs(a[p][c]) {
				p = r
			}
		}
		if a[p][c] == 0 {
			return inv, false
		}
		a[c], a[p] = a[p], a[c]
		d := a[c][c]
		for j := 0; j < 6; j++ {
			a[c][j] /= d
		}
		for r := 0; r < 3; r++ {
			if r == c {
				continue
			}
			f := a[r][c]
			if f == 0 {
				continue
			}
			for j := 0; j < 6; j++ {
				a[r][j] -= f * a[c][j]
			}
		}
	}
	for i := 0; i < 3; i++ {
		for j := 0; j < 3; j++ {
			inv[i][j] = a[i][3+j]
		}
	}
	return inv, true
}

// Det by cofactor expansion.
func (m M3) Det() float64 {
	return m[0][0]*(m[1][1]*m[2][2]-m[1][2]*m[2][1]) -
		m[0][1]*(m[1][0]*m[2][2]-m[1][2]*m[2][0]) +
		m[0][2]*(m[1][0]*m[2][1]-m[1][1]*m[2][0])
}

// NormInf is the max absolute row sum.
func (m M3) NormInf() float64 {
	n := 0.0
	for i := 0; i < 3; i++ {
		s := math.Abs(m[i][0]) + math.Abs(m[i][1]) + math.Abs(m[i][2])
		if s > n {
			n = s
		}
	}
	return n
}

// Cond is the infinity-norm condition number (Inf if singular).
func (m M3) Cond() float64 {
	inv, ok := m.Inv()
	if !ok {
		return math.Inf(1)
	}
	return m.NormInf() * inv.NormInf()
}

// XYZOf converts a chromaticity with luminance Y to XYZ.
func XYZOf(c XY, Y float64) V3 {
	return V3{c.X * Y / c.Y, Y, (1 - c.X - c.Y) * Y / c.Y}
}

// RGBToXYZ derives the RGB->XYZ matrix from primaries and white (Y_white = 1).
func RGBToXYZ(r, g, b, w XY) (M3, bool) {
	pr, pg, pb := XYZOf(r, 1), XYZOf(g, 1), XYZOf(b, 1)
	p := M3{{pr[0], pg[0], pb[0]}, {pr[1], pg[1], pb[1]}, {pr[2], pg[2], pb[2]}}
	pinv, ok := p.Inv()
	if !ok {
		return M3{}, false
	}
	s := pinv.MulV(XYZOf(w, 1))
	var m M3
	for i := 0; i < 3; i++ {
		m[i][0] = p[i][0] * s[0]
		m[i][1] = p[i][1] * s[1]
		m[i][2] = p[i][2] * s[2]
	}
	return m, true
}

// Bradford cone response matrix (Lam 1985 / ICC).
var BradfordFwd = M3{
	{0.8951, 0.2664, -0.1614},
	{-0.7502, 1.7135, 0.0367},
	{0.0389, -0.0685, 1.0296},
}

// Bradford returns the linear Bradford adaptation matrix from white a to white b.
func Bradford(a, b V3) M3 {
	inv, _ := BradfordFwd.Inv()
	ca := BradfordFwd.MulV(a)
	cb := BradfordFwd.MulV(b)
	d := M3{{cb[0] / ca[0], 0, 0}, {0, cb[1] / ca[1], 0}, {0, 0, cb[2] / ca[2]}}
	return inv.Mul(d).Mul(BradfordFwd)
}

// CIE 1976 L*a*b*.
const (
	LabEps   = 216.0 / 24389.0
	LabKappa = 24389.0 / 27.0
)

func labF(t float64) float64 {
	if t > LabEps {
		return math.Cbrt(t)
	}
	return (LabKappa*t + 16) / 116
}

func ToLab(xyz, white V3) V3 {
	fx := labF(xyz[0] / white[0])
	fy := labF(xyz[1] / white[1])
	fz := labF(xyz[2] / white[2])
	return V3{116*fy - 16, 500 * (fx - fy), 200 * (fy - fz)}
}

func labFinv(f float64) float64 {
	if f3 := f * f * f; f3 > LabEps {
		return f3
	}
	return (116*f - 16) / LabKappa
}

func FromLab(lab, white V3) V3 {
	fy := (lab[0] + 16) / 116
	fx := lab[1]/500 + fy
	fz := fy - lab[2]/200
	var yr float64
	if lab[0] > LabKappa*LabEps {
		yr = fy * fy * fy
	} else {
		yr = lab[0] / LabKappa
	}
	return V3{labFinv(fx) * white[0], yr * white[1], labFinv(fz) * white[2]}
}
