// Package sp binds the public API of prism's four RGB-space packages into one
// table so that the property packages can range over the spaces.
package sp

import (
	"image"
	"image/color"
	"image/draw"

	"github.com/mandykoh/prism/adobergb"
	"github.com/mandykoh/prism/ciexyy"
	"github.com/mandykoh/prism/ciexyz"
	"github.com/mandykoh/prism/displayp3"
	"github.com/mandykoh/prism/linear"
	"github.com/mandykoh/prism/prophotorgb"
	"github.com/mandykoh/prism/srgb"

	"verif/internal/ref"
)

type API struct {
	Name string
	Ref  ref.Space

	// per-component functions; nil for displayp3 (the package exposes none)
	From8  func(uint8) float32
	From16 func(uint16) float32
	To8    func(float32) uint8
	To16   func(float32) uint16

	FromNRGBA       func(color.NRGBA) (linear.RGB, float32)
	FromRGBA        func(color.RGBA) (linear.RGB, float32)
	FromEncoded     func(color.Color) (linear.RGB, float32)
	FromLinearColor func(color.Color) (linear.RGB, float32)
	FromLinear      func(r, g, b float32) linear.RGB
	FromXYZ         func(ciexyz.Color) linear.RGB
	ToXYZ           func(linear.RGB) ciexyz.Color
	ToNRGBA         func(linear.RGB, float32) color.NRGBA
	ToRGBA          func(linear.RGB, float32) color.RGBA
	ToRGBA64        func(linear.RGB, float32) color.RGBA64

	LineariseColor func(color.Color) color.RGBA64
	EncodeColor    func(color.Color) color.RGBA64
	LineariseImage func(draw.Image, image.Image, int)
	EncodeImage    func(draw.Image, image.Image, int)

	PrimR, PrimG, PrimB, White func() ciexyy.Color

	// MutateToXYZ builds a Color with ColorFromXYZ(from), overwrites its exported R, G, B fields with rgb and
	// converts it to XYZ; MutateToNRGBA does the same and encodes.  A Color is a plain value: what it was built
	// from must not matter once its fields say something else.
	MutateToXYZ func(from ciexyz.Color, rgb linear.RGB) ciexyz.Color
}

var Spaces = []API{
	{
		Name: "srgb", Ref: ref.SRGB,
		From8: srgb.From8Bit, From16: srgb.From16Bit, To8: srgb.To8Bit, To16: srgb.To16Bit,
		FromNRGBA:       func(c color.NRGBA) (linear.RGB, float32) { x, a := srgb.ColorFromNRGBA(c); return x.RGB, a },
		FromRGBA:        func(c color.RGBA) (linear.RGB, float32) { x, a := srgb.ColorFromRGBA(c); return x.RGB, a },
		FromEncoded:     func(c color.Color) (linear.RGB, float32) { x, a := srgb.ColorFromEncodedColor(c); return x.RGB, a },
		FromLinearColor: func(c color.Color) (linear.RGB, float32) { x, a := srgb.ColorFromLinearColor(c); return x.RGB, a },
		FromLinear:      func(r, g, b float32) linear.RGB { return srgb.ColorFromLinear(r, g, b).RGB },
		FromXYZ:         func(c ciexyz.Color) linear.RGB { return srgb.ColorFromXYZ(c).RGB },
		ToXYZ:           func(c linear.RGB) ciexyz.Color { return srgb.Color{RGB: c}.ToXYZ() },
		ToNRGBA:         func(c linear.RGB, a float32) color.NRGBA { return srgb.Color{RGB: c}.ToNRGBA(a) },
		ToRGBA:          func(c linear.RGB, a float32) color.RGBA { return srgb.Color{RGB: c}.ToRGBA(a) },
		ToRGBA64:        func(c linear.RGB, a float32) color.RGBA64 { return srgb.Color{RGB: c}.ToRGBA64(a) },
		LineariseColor:  srgb.LineariseColor, EncodeColor: srgb.EncodeColor,
		LineariseImage: srgb.LineariseImage, EncodeImage: srgb.EncodeImage,
		PrimR: func() ciexyy.Color { return srgb.PrimaryRed }, PrimG: func() ciexyy.Color { return srgb.PrimaryGreen },
		PrimB: func() ciexyy.Color { return srgb.PrimaryBlue }, White: func() ciexyy.Color { return srgb.StandardWhitePoint },
	},
	{
		Name: "adobergb", Ref: ref.AdobeRGB,
		From8: adobergb.From8Bit, From16: adobergb.From16Bit, To8: adobergb.To8Bit, To16: adobergb.To16Bit,
		FromNRGBA:       func(c color.NRGBA) (linear.RGB, float32) { x, a := adobergb.ColorFromNRGBA(c); return x.RGB, a },
		FromRGBA:        func(c color.RGBA) (linear.RGB, float32) { x, a := adobergb.ColorFromRGBA(c); return x.RGB, a },
		FromEncoded:     func(c color.Color) (linear.RGB, float32) { x, a := adobergb.ColorFromEncodedColor(c); return x.RGB, a },
		FromLinearColor: func(c color.Color) (linear.RGB, float32) { x, a := adobergb.ColorFromLinearColor(c); return x.RGB, a },
		FromLinear:      func(r, g, b float32) linear.RGB { return adobergb.ColorFromLinear(r, g, b).RGB },
		FromXYZ:         func(c ciexyz.Color) linear.RGB { return adobergb.ColorFromXYZ(c).RGB },
		ToXYZ:           func(c linear.RGB) ciexyz.Color { return adobergb.Color{RGB: c}.ToXYZ() },
		ToNRGBA:         func(c linear.RGB, a float32) color.NRGBA { return adobergb.Color{RGB: c}.ToNRGBA(a) },
		ToRGBA:          func(c linear.RGB, a float32) color.RGBA { return adobergb.Color{RGB: c}.ToRGBA(a) },
		ToRGBA64:        func(c linear.RGB, a float32) color.RGBA64 { return adobergb.Color{RGB: c}.ToRGBA64(a) },
		LineariseColor:  adobergb.LineariseColor, EncodeColor: adobergb.EncodeColor,
		LineariseImage: adobergb.LineariseImage, EncodeImage: adobergb.EncodeImage,
		PrimR: func() ciexyy.Color { return adobergb.PrimaryRed }, PrimG: func() ciexyy.Color { return adobergb.PrimaryGreen },
		PrimB: func() ciexyy.Color { return adobergb.PrimaryBlue }, White: func() ciexyy.Color { return adobergb.StandardWhitePoint },
	},
	{
		Name: "prophotorgb", Ref: ref.ProPhoto,
		From8: prophotorgb.From8Bit, From16: prophotorgb.From16Bit, To8: prophotorgb.To8Bit, To16: prophotorgb.To16Bit,
		FromNRGBA: func(c color.NRGBA) (linear.RGB, float32) { x, a := prophotorgb.ColorFromNRGBA(c); return x.RGB, a },
		FromRGBA:  func(c color.RGBA) (linear.RGB, float32) { x, a := prophotorgb.ColorFromRGBA(c); return x.RGB, a },
		FromEncoded: func(c color.Color) (linear.RGB, float32) {
			x, a := prophotorgb.ColorFromEncodedColor(c)
			return x.RGB, a
		},
		FromLinearColor: func(c color.Color) (linear.RGB, float32) {
			x, a := prophotorgb.ColorFromLinearColor(c)
			return x.RGB, a
		},
		FromLinear:     func(r, g, b float32) linear.RGB { return prophotorgb.ColorFromLinear(r, g, b).RGB },
		FromXYZ:        func(c ciexyz.Color) linear.RGB { return prophotorgb.ColorFromXYZ(c).RGB },
		ToXYZ:          func(c linear.RGB) ciexyz.Color { return prophotorgb.Color{RGB: c}.ToXYZ() },
		ToNRGBA:        func(c linear.RGB, a float32) color.NRGBA { return prophotorgb.Color{RGB: c}.ToNRGBA(a) },
		ToRGBA:         func(c linear.RGB, a float32) color.RGBA { return prophotorgb.Color{RGB: c}.ToRGBA(a) },
		ToRGBA64:       func(c linear.RGB, a float32) color.RGBA64 { return prophotorgb.Color{RGB: c}.ToRGBA64(a) },
		LineariseColor: prophotorgb.LineariseColor, EncodeColor: prophotorgb.EncodeColor,
		LineariseImage: prophotorgb.LineariseImage, EncodeImage: prophotorgb.EncodeImage,
		PrimR: func() ciexyy.Color { return prophotorgb.PrimaryRed }, PrimG: func() ciexyy.Color { return prophotorgb.PrimaryGreen },
		PrimB: func() ciexyy.Color { return prophotorgb.PrimaryBlue }, White: func() ciexyy.Color { return prophotorgb.StandardWhitePoint },
	},
	{
		Name: "displayp3", Ref: ref.DisplayP3,
		FromNRGBA:       func(c color.NRGBA) (linear.RGB, float32) { x, a := displayp3.ColorFromNRGBA(c); return x.RGB, a },
		FromRGBA:        func(c color.RGBA) (linear.RGB, float32) { x, a := displayp3.ColorFromRGBA(c); return x.RGB, a },
		FromEncoded:     func(c color.Color) (linear.RGB, float32) { x, a := displayp3.ColorFromEncodedColor(c); return x.RGB, a },
		FromLinearColor: func(c color.Color) (linear.RGB, float32) { x, a := displayp3.ColorFromLinearColor(c); return x.RGB, a },
		FromLinear:      func(r, g, b float32) linear.RGB { return displayp3.ColorFromLinear(r, g, b).RGB },
		FromXYZ:         func(c ciexyz.Color) linear.RGB { return displayp3.ColorFromXYZ(c).RGB },
		ToXYZ:           func(c linear.RGB) ciexyz.Color { return displayp3.Color{RGB: c}.ToXYZ() },
		ToNRGBA:         func(c linear.RGB, a float32) color.NRGBA { return displayp3.Color{RGB: c}.ToNRGBA(a) },
		ToRGBA:          func(c linear.RGB, a float32) color.RGBA { return displayp3.Color{RGB: c}.ToRGBA(a) },
		ToRGBA64:        func(c linear.RGB, a float32) color.RGBA64 { return displayp3.Color{RGB: c}.ToRGBA64(a) },
		LineariseColor:  displayp3.LineariseColor, EncodeColor: displayp3.EncodeColor,
		LineariseImage: displayp3.LineariseImage, EncodeImage: displayp3.EncodeImage,
		PrimR: func() ciexyy.Color { return displayp3.PrimaryRed }, PrimG: func() ciexyy.Color { return displayp3.PrimaryGreen },
		PrimB: func() ciexyy.Color { return displayp3.PrimaryBlue }, White: func() ciexyy.Color { return displayp3.StandardWhitePoint },
	},
}

// FromNRGBAch decodes a single 8-bit channel through the space's NRGBA constructor.
func (a *API) FromNRGBAch(v uint8) float32 {
	c, _ := a.FromNRGBA(color.NRGBA{R: v, A: 255})
	return c.R
}

func init() {
	Spaces[0].MutateToXYZ = func(from ciexyz.Color, rgb linear.RGB) ciexyz.Color {
		c := srgb.ColorFromXYZ(from)
		c.R, c.G, c.B = rgb.R, rgb.G, rgb.B
		return c.ToXYZ()
	}
	Spaces[1].MutateToXYZ = func(from ciexyz.Color, rgb linear.RGB) ciexyz.Color {
		c := adobergb.ColorFromXYZ(from)
		c.R, c.G, c.B = rgb.R, rgb.G, rgb.B
		return c.ToXYZ()
	}
	Spaces[2].MutateToXYZ = func(from ciexyz.Color, rgb linear.RGB) ciexyz.Color {
		c := prophotorgb.ColorFromXYZ(from)
		c.R, c.G, c.B = rgb.R, rgb.G, rgb.B
		return c.ToXYZ()
	}
	Spaces[3].MutateToXYZ = func(from ciexyz.Color, rgb linear.RGB) ciexyz.Color {
		c := displayp3.ColorFromXYZ(from)
		c.R, c.G, c.B = rgb.R, rgb.G, rgb.B
		return c.ToXYZ()
	}
}
