// Package ld wraps the four prism metadata loaders behind one signature and
// reduces their results to a comparable outcome tuple.
package ld

import (
	"fmt"
	"io"
	"runtime/debug"

	"github.com/mandykoh/prism/meta"
	"github.com/mandykoh/prism/meta/autometa"
	"github.com/mandykoh/prism/meta/jpegmeta"
	"github.com/mandykoh/prism/meta/pngmeta"
	"github.com/mandykoh/prism/meta/webpmeta"

	"verif/internal/src"
)

type Fn func(io.Reader) (*meta.Data, io.Reader, error)

var Names = []string{"png", "jpeg", "webp", "auto"}

var Loaders = map[string]Fn{"png": pngmeta.Load, "jpeg": jpegmeta.Load, "webp": webpmeta.Load, "auto": autometa.Load}

// ForFormat maps a format name to the specific loader name.
func ForFormat(format string) string {
	switch format {
	case "PNG":
		return "png"
	case "JPEG":
		return "jpeg"
	}
	return "webp"
}

// Outcome is everything observable from one Load call except the stream.
type Outcome struct {
	OK     bool      `json:"ok"`
	MDNil  bool      `json:"md_nil"`
	Format string    `json:"format"`
	W      uint32    `json:"w"`
	H      uint32    `json:"h"`
	Bits   uint32    `json:"bits"`
	ICC    []byte    `json:"-"`
	ICCLen int       `json:"icc_len"`
	ICCNil bool      `json:"icc_nil"`
	ICCErr string    `json:"icc_err"`
	Err    string    `json:"err"`
	Panic  string    `json:"panic"`
	Stream io.Reader `json:"-"`
}

// Run calls the named loader, converting an escaping panic into Outcome.Panic.
func Run(name string, r io.Reader) (o Outcome) {
	defer func() {
		if x := recover(); x != nil {
			o.Panic = fmt.Sprintf("%v\n%s", x, debug.Stack())
		}
	}()
	md, stream, err := Loaders[name](r)
	o.Stream = stream
	o.OK = err == nil
	if err != nil {
		o.Err = err.Error()
	}
	o.MDNil = md == nil
	if md != nil {
		o.Format, o.W, o.H, o.Bits = string(md.Format), md.PixelWidth, md.PixelHeight, md.BitsPerComponent
		icc, ierr := md.ICCProfileData()
		o.ICC, o.ICCLen, o.ICCNil = icc, len(icc), icc == nil
		if ierr != nil {
			o.ICCErr = ierr.Error()
		}
	} else {
		o.ICCNil = true
	}
	return o
}

// Same compares the parts of two outcomes that C08/C18/C19 call "the result":
// success, metadata, ICC bytes and presence of an ICC error (not error text).
func Same(a, b Outcome) bool {
	if a.OK != b.OK || a.MDNil != b.MDNil || a.Format != b.Format || a.W != b.W || a.H != b.H || a.Bits != b.Bits {
		return false
	}
	if a.ICCNil != b.ICCNil || (a.ICCErr != "") != (b.ICCErr != "") || string(a.ICC) != string(b.ICC) {
		return false
	}
	return (a.Panic != "") == (b.Panic != "")
}

func (o Outcome) String() string {
	return fmt.Sprintf("{ok=%v mdnil=%v %s %dx%d bits=%d icc=%d bytes nil=%v iccerr=%q err=%q panic=%v}", o.OK, o.MDNil, o.Format, o.W, o.H, o.Bits, o.ICCLen, o.ICCNil, o.ICCErr, o.Err, o.Panic != "")
}

// RunStd runs the named loader on data delivered by a standard-library reader of the given dynamic type,
// positioned after prefix unrelated bytes (see src.Std).
func RunStd(name, kind string, prefix int, data []byte, scratch string) Outcome {
	r, _, cleanup := src.Std(kind, prefix, data, scratch)
	defer cleanup()
	return Run(name, r)
}
