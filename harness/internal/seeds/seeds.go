// Package seeds provides the seed corpus: the repository's own test images and
// profile, plus deterministic grammar-built files of all formats.
package seeds

import (
	"bytes"
	"compress/zlib"
	"fmt"
	"os"
	"path/filepath"
	"sort"

	"verif/internal/build"
)

type Seed struct {
	Name string
	Data []byte
	Map  *build.Map
	Kind string // PNG JPEG WebP ICC
}

func repoDir() string {
	if r := os.Getenv("VERIF_REPO"); r != "" {
		return r
	}
	return "/repo"
}

// Repo returns the repository's test images and profiles (whole files).
func Repo() []Seed {
	var out []Seed
	for _, dir := range []string{"test-images", "test-profiles"} {
		ents, _ := os.ReadDir(filepath.Join(repoDir(), dir))
		var names []string
		for _, e := range ents {
			names = append(names, e.Name())
		}
		sort.Strings(names)
		for _, n := range names {
			b, err := os.ReadFile(filepath.Join(repoDir(), dir, n))
			if err != nil {
				continue
			}
			out = append(out, Seed{Name: dir + "/" + n, Data: b, Map: build.Parse(b), Kind: kindOf(b)})
		}
	}
	return out
}

func zlibBytes(p []byte) []byte {
	var z bytes.Buffer
	w := zlib.NewWriter(&z)
	w.Write(p)
	w.Close()
	return z.Bytes()
}

func kindOf(b []byte) string {
	switch {
	case len(b) >= 8 && string(b[:8]) == string(build.PNGSig):
		return "PNG"
	case len(b) >= 2 && b[0] == 0xFF && b[1] == 0xD8:
		return "JPEG"
	case len(b) >= 12 && string(b[:4]) == "RIFF":
		return "WebP"
	case len(b) >= 40 && string(b[36:40]) == "acsp":
		return "ICC"
	}
	return "?"
}

func profile(v4 bool, extra int) []byte {
	if v4 {
		return build.SimpleProfile(build.Mluc([]build.MlucRec{
			{Lang: [2]byte{'d', 'e'}, Country: [2]byte{'D', 'E'}, Text: "Anzeige"},
			{Lang: [2]byte{'e', 'n'}, Country: [2]byte{'U', 'S'}, Text: "Display"},
			{Lang: [2]byte{'j', 'a'}, Country: [2]byte{'J', 'P'}, Text: "ディスプレイ"}}, []int{2, 0, 1}, nil, 2), extra)
	}
	return build.SimpleProfile(build.TextDesc("Seed profile v2"), extra)
}

// Built returns small deterministic grammar-built files (valid), with and without ICC.
func Built() []Seed {
	var out []Seed
	add := func(name string, d []byte, m *build.Map) {
		out = append(out, Seed{Name: "built/" + name, Data: d, Map: m, Kind: kindOf(d)})
	}
	for i, prof := range [][]byte{nil, profile(false, 0), profile(true, 40), profile(true, 5000)} {
		// PNG
		p := build.PNG{W: 300, H: 200, Depth: 8, ColorType: 6, IDAT: []byte{0x78, 0x9c, 1, 2, 3, 4}}
		p.Pre = append(p.Pre, build.Chunk{Type: "gAMA", Data: []byte{0, 0, 0xb1, 0x8f}})
		if prof != nil {
			p.Pre = append(p.Pre, build.ICCPChunk("seed profile", prof, 6))
		}
		p.Pre = append(p.Pre, build.Chunk{Type: "tEXt", Data: []byte("Comment\x00seed")})
		d, m := p.Bytes()
		add(fmt.Sprintf("png-%d", i), d, m)
		// JPEG
		segs := []build.Seg{{Marker: 0xE0, Data: []byte("JFIF\x00\x01\x01\x00\x00\x01\x00\x01\x00\x00")}, {Marker: 0xDB, Data: build.DQT(0)}}
		if prof != nil {
			segs = append(segs, build.ICCSegs(prof, []int{len(prof)/3 + 1, len(prof) / 3})...)
		}
		segs = append(segs, build.Seg{Marker: 0xFE, Data: []byte("seed")}, build.Seg{Marker: 0xC0, Data: build.SOF(8, 200, 300, [][3]byte{{1, 0x22, 0}, {2, 0x11, 1}, {3, 0x11, 1}})},
			build.Seg{Marker: 0xC4, Data: build.DHT(0, 0)})
		d, m = build.JPEG{Segs: segs, SOS: []byte{3, 1, 0, 2, 0x11, 3, 0x11, 0, 63, 0}, Entropy: []byte{1, 2, 0xFF, 3, 4, 5}}.Bytes()
		add(fmt.Sprintf("jpeg-%d", i), d, m)
		// WebP extended
		flags := byte(0x10)
		chunks := []build.RIFFChunk{}
		if prof != nil {
			flags |= 0x20
		}
		chunks = append(chunks, build.RIFFChunk{FourCC: "VP8X", Data: build.VP8XHeader(flags, 299, 199)})
		if prof != nil {
			chunks = append(chunks, build.RIFFChunk{FourCC: "ICCP", Data: prof})
		}
		chunks = append(chunks, build.RIFFChunk{FourCC: "ALPH", Data: []byte{0, 1, 2}}, build.RIFFChunk{FourCC: "VP8 ", Data: build.VP8Header(300, 200, 0, 0, 16)})
		d, m = build.WebP{Chunks: chunks}.Bytes()
		add(fmt.Sprintf("webp-x-%d", i), d, m)
		if prof != nil {
			add(fmt.Sprintf("icc-%d", i), prof, build.ParseICC(prof, 0))
		}
	}
	d, m := build.WebP{Chunks: []build.RIFFChunk{{FourCC: "VP8 ", Data: build.VP8Header(64, 48, 1, 2, 24)}}}.Bytes()
	add("webp-vp8", d, m)
	d, m = build.WebP{Chunks: []build.RIFFChunk{{FourCC: "VP8L", Data: append(build.VP8LHeader(63, 47, true), 1, 2, 3, 4, 5, 6)}}}.Bytes()
	add("webp-vp8l", d, m)
	// progressive JPEG, 4 components, chunks out of order before SOF
	prof := profile(false, 300)
	icc := build.ICCSegs(prof, []int{100, 100, 100})
	segs := []build.Seg{icc[2], {Marker: 0xEE, Data: []byte("Adobe\x00d\x00\x00\x00\x00\x02")}, icc[0], icc[3], icc[1],
		{Marker: 0xC2, Data: build.SOF(8, 1, 65535, [][3]byte{{1, 0x11, 0}, {2, 0x11, 0}, {3, 0x11, 0}, {4, 0x11, 0}})}}
	d, m = build.JPEG{Segs: segs, SOS: []byte{1, 1, 0, 0, 0, 0}, Entropy: []byte{7}}.Bytes()
	add("jpeg-cmyk-prog", d, m)
	// the application-segment vocabulary, twice: between the ICC chunks with the frame header last (the parser walks
	// over every segment), and with no profile at all
	for vi, withICC := range []bool{true, false} {
		var vs []build.Seg
		for ki, k := range build.VocabKinds {
			vs = append(vs, build.Vocab(k, ki*7+vi))
		}
		vs = append(vs, build.Vocab("photoshop", 7), build.Vocab("exif", 3))
		segs = nil
		if withICC {
			ic := build.ICCSegs(profile(true, 40), []int{200, 200})
			segs = append(segs, vs[0], ic[0])
			segs = append(segs, vs[1:7]...)
			segs = append(segs, ic[1])
			segs = append(segs, vs[7:]...)
			segs = append(segs, ic[2:]...)
		} else {
			segs = append(segs, vs...)
		}
		segs = append(segs, build.Seg{Marker: 0xC0, Data: build.SOF(8, 480, 640, [][3]byte{{1, 0x22, 0}, {2, 0x11, 1}, {3, 0x11, 1}})})
		d, m = build.JPEG{Segs: segs, SOS: []byte{1, 1, 0, 0, 63, 0}, Entropy: []byte{9}}.Bytes()
		add(fmt.Sprintf("jpeg-vocab-%d", vi), d, m)
	}
	// PNG 16-bit paletted-less, iCCP first
	d, m = build.PNG{W: 1, H: 1<<31 - 1, Depth: 16, ColorType: 2, Interlace: 1, Pre: []build.Chunk{build.ICCPChunk("x", profile(true, 0), 0)}, IDAT: []byte{0}}.Bytes()
	add("png-16", d, m)
	return out
}

// All returns Repo() + Built().
func All() []Seed { return append(Repo(), Built()...) }

// Hostile returns tiny hand-built malformed files that sit on known parser edges.
func Hostile() []Seed {
	var out []Seed
	add := func(name string, d []byte) {
		out = append(out, Seed{Name: "hostile/" + name, Data: d, Map: build.Parse(d), Kind: kindOf(d)})
	}
	for n := 0; n <= 5; n++ { // SOF payload shorter than the 5 bytes the reader indexes
		d := []byte{0xFF, 0xD8, 0xFF, 0xC0, 0, byte(2 + n)}
		d = append(d, make([]byte, n)...)
		d = append(d, 0xFF, 0xDA, 0, 2, 1, 2, 0xFF, 0xD9)
		add(fmt.Sprintf("jpeg-sof-len%d", n), d)
	}
	// a valid SOF followed by a second, too short SOF: the reader panics after it has extracted metadata
	add("jpeg-sof-then-short-sof", []byte{0xFF, 0xD8, 0xFF, 0xC0, 0, 11, 8, 0, 2, 0, 3, 1, 1, 0x11, 0, 0xFF, 0xC2, 0, 4, 8, 0, 0xFF, 0xDA, 0, 2, 0xFF, 0xD9})
	add("jpeg-icc-then-short-sof", []byte{0xFF, 0xD8, 0xFF, 0xC0, 0, 11, 8, 0, 2, 0, 3, 1, 1, 0x11, 0, 0xFF, 0xE2, 0, 17, 'I', 'C', 'C', '_', 'P', 'R', 'O', 'F', 'I', 'L', 'E', 0, 1, 2, 'x', 0xFF, 0xC0, 0, 3, 8, 0xFF, 0xD9})
	add("jpeg-seglen-0", []byte{0xFF, 0xD8, 0xFF, 0xE0, 0, 0, 0xFF, 0xC0, 0, 8, 8, 0, 1, 0, 1, 0, 0xFF, 0xD9})
	add("jpeg-seglen-1", []byte{0xFF, 0xD8, 0xFF, 0xE2, 0, 1, 0xFF, 0xC2, 0, 8, 8, 0, 1, 0, 1, 0, 0xFF, 0xD9})
	add("jpeg-app2-short", []byte{0xFF, 0xD8, 0xFF, 0xE2, 0, 15, 'I', 'C', 'C', '_', 'P', 'R', 'O', 'F', 'I', 'L', 'E', 0, 1, 0xFF, 0xC0, 0, 8, 8, 0, 1, 0, 1, 0})
	add("jpeg-icc-total0", []byte{0xFF, 0xD8, 0xFF, 0xE2, 0, 16, 'I', 'C', 'C', '_', 'P', 'R', 'O', 'F', 'I', 'L', 'E', 0, 1, 0, 0xFF, 0xC0, 0, 8, 8, 0, 1, 0, 1, 0})
	add("jpeg-rst-in-header", []byte{0xFF, 0xD8, 0xFF, 0xD0, 0xFF, 0xD8, 0xFF, 0xC0, 0, 8, 8, 0, 1, 0, 1, 0, 0xFF, 0xDA, 0, 2, 0xFF, 0, 0xFF, 0xD7, 0xFF, 0xFF, 0xD9})
	// files that end exactly where their last structure ends: a WebP whose final chunk is the profile (odd length, so
	// the RIFF pad byte after it is the only thing missing - many writers leave it out - and even length), a PNG
	// that stops after iCCP's CRC, a JPEG that stops after its frame header
	for _, n := range []int{131, 132, 1, 2} {
		prof := make([]byte, n)
		for i := range prof {
			prof[i] = byte(i*7 + n)
		}
		w, _ := build.WebP{Chunks: []build.RIFFChunk{{FourCC: "VP8X", Data: build.VP8XHeader(0x20, 9, 6)}, {FourCC: "ICCP", Data: prof}}}.Bytes()
		if n%2 == 1 {
			w = w[:len(w)-1] // no pad byte after the odd payload
		}
		add(fmt.Sprintf("webp-ends-after-iccp-%d", n), w)
	}
	{
		p, m := build.PNG{W: 3, H: 2, Depth: 8, ColorType: 2, Pre: []build.Chunk{build.ICCPChunk("p", []byte("0123456789abcdef"), 6)}, IDAT: []byte{1}}.Bytes()
		add("png-ends-after-iccp", p[:m.Marks["needEnd"]])
		j, jm := build.JPEG{Segs: []build.Seg{build.ICCSeg(1, 1, []byte("0123456789abcdefg")), {Marker: 0xC0, Data: build.SOF(8, 2, 3, [][3]byte{{1, 0x11, 0}})}}, SOS: []byte{1, 1, 0, 0, 63, 0}}.Bytes()
		add("jpeg-ends-after-sof", j[:jm.Marks["sofEnd"]])
	}
	// complete (if minimal) files followed by more of the stream than any read-ahead holds: a PNG that reaches a
	// well-formed IEND without image data, with and without a profile; a JPEG up to EOI; a WebP whose RIFF size ends
	// before the data does
	{
		tail := make([]byte, 6000)
		for i := range tail {
			tail[i] = byte(i*31 + 5)
		}
		p1, _ := build.PNG{W: 3, H: 2, Depth: 8, ColorType: 2, NoIDAT: true}.Bytes()
		add("png-ihdr-iend-then-data", append(p1, tail...))
		p2, _ := build.PNG{W: 3, H: 2, Depth: 8, ColorType: 2, NoIDAT: true, Pre: []build.Chunk{{Type: "tEXt", Data: []byte("k\x00v")}}}.Bytes()
		add("png-text-iend-then-data", append(p2, tail...))
		j, _ := build.JPEG{Segs: []build.Seg{{Marker: 0xC0, Data: build.SOF(8, 2, 3, [][3]byte{{1, 0x11, 0}})}}}.Bytes()
		add("jpeg-sof-eoi-then-data", append(j, tail...))
		w, _ := build.WebP{Chunks: []build.RIFFChunk{{FourCC: "VP8L", Data: build.VP8LHeader(4, 4, false)}}}.Bytes()
		add("webp-then-data", append(w, tail...))
	}
	for _, n := range []uint32{0, 1, 8, 9, 12, 14, 0xFFFFFFFF, 0x80000000} { // IHDR length edges
		d := append([]byte(nil), build.PNGSig...)
		d = append(d, byte(n>>24), byte(n>>16), byte(n>>8), byte(n), 'I', 'H', 'D', 'R', 0, 0, 0, 1, 0, 0, 0, 1, 8, 2, 0, 0, 0, 1, 2, 3, 4, 0, 0, 0, 0, 'I', 'D', 'A', 'T')
		add(fmt.Sprintf("png-ihdr-len%x", n), d)
	}
	// iCCP edges: no terminator within 80 bytes, name only, declared length smaller than name
	base := append(append([]byte(nil), build.PNGSig...), 0, 0, 0, 13, 'I', 'H', 'D', 'R', 0, 0, 0, 1, 0, 0, 0, 1, 8, 2, 0, 0, 0, 1, 2, 3, 4)
	long := append(append([]byte(nil), base...), 0, 0, 0, 100, 'i', 'C', 'C', 'P')
	for i := 0; i < 104; i++ {
		long = append(long, 'a')
	}
	add("png-iccp-no-terminator", long)
	add("png-iccp-len2", append(append([]byte(nil), base...), 0, 0, 0, 2, 'i', 'C', 'C', 'P', 'a', 0, 0, 1, 2, 3, 4))
	add("png-iccp-len3-badmethod", append(append([]byte(nil), base...), 0, 0, 0, 3, 'i', 'C', 'C', 'P', 'a', 0, 9, 1, 2, 3, 4))
	add("png-iccp-huge", append(append([]byte(nil), base...), 0xFF, 0xFF, 0xFF, 0xFF, 'i', 'C', 'C', 'P', 'a', 0, 0, 0x78, 0x9c))
	add("png-iccp-before-ihdr", append(append(append([]byte(nil), build.PNGSig...), 0, 0, 0, 4, 'i', 'C', 'C', 'P', 'a', 0, 0, 0x78, 1, 2, 3, 4), base[8:]...))
	// PNG files (valid IHDR, valid chunk framing and CRCs) whose iCCP deflate stream is damaged in different ways
	for name, z := range map[string][]byte{
		"bad-zlib-header":     {0x00, 0x00, 1, 2, 3, 4, 5, 6, 7, 8, 9, 10, 11, 12, 13, 14, 15, 16, 17, 18, 19, 20},
		"bad-zlib-header2":    append([]byte{0x78, 0x9d}, make([]byte, 300)...),
		"bad-deflate-body":    {0x78, 0x9c, 0xFF, 0xFF, 0xFF, 0xFF, 1, 2, 3, 4, 5, 6, 7, 8, 9},
		"stream-then-garbage": append(zlibBytes([]byte("profile bytes profile bytes")), make([]byte, 5000)...),
		"truncated-stream":    zlibBytes(make([]byte, 3000))[:12],
		"bad-adler":           func() []byte { b := zlibBytes([]byte("abcdefgh")); b[len(b)-1] ^= 1; return b }(),
	} {
		p := build.PNG{W: 15, H: 16, Depth: 8, ColorType: 2, Pre: []build.Chunk{{Type: "gAMA", Data: []byte{0, 0, 0xb1, 0x8f}}, build.RawICCPChunk("damaged", z), {Type: "tEXt", Data: make([]byte, 700)}}, IDAT: []byte{1, 2, 3}}
		d, _ := p.Bytes()
		add("png-iccp-"+name, d)
	}
	// WebP edges
	add("webp-vp8x-len9", []byte("RIFF\x1a\x00\x00\x00WEBPVP8X\x09\x00\x00\x00\x20\x00\x00\x00\x01\x00\x00\x01\x00"))
	add("webp-vp8x-flag-eof", []byte("RIFF\x16\x00\x00\x00WEBPVP8X\x0a\x00\x00\x00\x20\x00\x00\x00\x01\x00\x00\x01\x00\x00"))
	add("webp-iccp-huge", []byte("RIFF\x1e\x00\x00\x00WEBPVP8X\x0a\x00\x00\x00\x20\x00\x00\x00\x01\x00\x00\x01\x00\x00ICCP\xff\xff\xff\xffab"))
	add("webp-vp8-badstart", []byte("RIFF\x16\x00\x00\x00WEBPVP8 \x0a\x00\x00\x00\x00\x00\x00\x9d\x01\x2b\x01\x00\x01\x00"))
	add("webp-riff-only", []byte("RIFF\xff\xff\xff\xffWEBP"))
	add("webp-unknown-chunk", []byte("RIFF\x10\x00\x00\x00WEBPJUNK\x04\x00\x00\x00abcd"))
	return out
}
