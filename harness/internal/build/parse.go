package build

import (
	"encoding/binary"
	"unicode/utf16"
)

// Parse produces a field map for an existing file (used for the repository's
// real test images, so they can serve as seeds for field-level mutation and
// structural truncation).  Unknown formats get an empty map.
func Parse(data []byte) *Map {
	switch {
	case len(data) >= 8 && string(data[:8]) == string(PNGSig):
		return parsePNG(data)
	case len(data) >= 2 && data[0] == 0xFF && data[1] == 0xD8:
		return parseJPEG(data)
	case len(data) >= 12 && string(data[:4]) == "RIFF" && string(data[8:12]) == "WEBP":
		return parseWebP(data)
	case len(data) >= 132 && string(data[36:40]) == "acsp":
		return ParseICC(data, 0)
	}
	return newMap()
}

func parsePNG(d []byte) *Map {
	m := newMap()
	pos := 8
	m.Ends = append(m.Ends, 8)
	for pos+8 <= len(d) {
		n := int(binary.BigEndian.Uint32(d[pos:]))
		typ := string(d[pos+4 : pos+8])
		m.add("png."+typ+".length", pos, 4, false, "length")
		m.add("png."+typ+".type", pos+4, 4, false, "type")
		m.Ends = append(m.Ends, pos+8)
		if typ == "IHDR" {
			m.add("png.width", pos+8, 4, false, "dim")
			m.add("png.height", pos+12, 4, false, "dim")
		}
		if typ == "IDAT" {
			m.Marks["idatHeaderEnd"] = pos + 8
		}
		if n < 0 || pos+12+n > len(d) || pos+12+n < pos {
			break
		}
		pos += 12 + n
		m.Ends = append(m.Ends, pos)
		if typ == "IDAT" || typ == "IEND" {
			// keep walking: later chunks are seeds for reorder/duplicate operators too
		}
	}
	return m
}

func parseJPEG(d []byte) *Map {
	m := newMap()
	pos := 2
	m.Ends = append(m.Ends, 2)
	for pos+4 <= len(d) && d[pos] == 0xFF {
		mk := d[pos+1]
		if mk == 0xD9 {
			break
		}
		n := int(binary.BigEndian.Uint16(d[pos+2:]))
		m.add("jpeg.seg.length", pos+2, 2, false, "length")
		m.add("jpeg.seg.marker", pos+1, 1, false, "type")
		m.Ends = append(m.Ends, pos+4)
		if mk == 0xC0 || mk == 0xC2 {
			m.add("jpeg.sof.height", pos+5, 2, false, "dim")
			m.add("jpeg.sof.width", pos+7, 2, false, "dim")
			m.add("jpeg.sof.ncomp", pos+9, 1, false, "count")
		}
		if mk == 0xE2 && pos+18 <= len(d) && string(d[pos+4:pos+15]) == "ICC_PROFILE" {
			m.add("jpeg.icc.num", pos+16, 1, false, "count")
			m.add("jpeg.icc.total", pos+17, 1, false, "count")
		}
		if n < 2 || pos+2+n > len(d) {
			break
		}
		for _, f := range AppFields(mk, d[pos+4:pos+2+n]) {
			m.add(f.Name, pos+4+f.Off, f.Len, f.Little, f.Kind)
		}
		pos += 2 + n
		m.Ends = append(m.Ends, pos)
		if mk == 0xDA {
			m.Marks["sosHeaderEnd"] = pos
			break
		}
	}
	return m
}

func parseWebP(d []byte) *Map {
	m := newMap()
	m.add("webp.riff.size", 4, 4, true, "length")
	pos := 12
	m.Ends = append(m.Ends, 12)
	for pos+8 <= len(d) {
		fc := string(d[pos : pos+4])
		n := int(binary.LittleEndian.Uint32(d[pos+4:]))
		m.add("webp."+fc+".type", pos, 4, true, "type")
		m.add("webp."+fc+".length", pos+4, 4, true, "length")
		m.Ends = append(m.Ends, pos+8)
		switch fc {
		case "VP8 ":
			m.add("webp.vp8.width", pos+14, 2, true, "dim")
			m.add("webp.vp8.height", pos+16, 2, true, "dim")
		case "VP8L":
			m.add("webp.vp8l.dims", pos+9, 4, true, "dim")
		case "VP8X":
			m.add("webp.vp8x.flags", pos+8, 1, true, "flags")
			m.add("webp.vp8x.width", pos+12, 3, true, "dim")
			m.add("webp.vp8x.height", pos+15, 3, true, "dim")
		}
		if n < 0 || pos+8+n > len(d) {
			break
		}
		pos += 8 + n + n%2
		m.Ends = append(m.Ends, pos)
	}
	return m
}

// ParseICC maps an ICC profile located at base within a larger buffer.
func ParseICC(d []byte, base int) *Map {
	m := newMap()
	p := d[base:]
	if len(p) < 132 {
		return m
	}
	m.add("icc.size", base, 4, false, "length")
	m.add("icc.tagcount", base+128, 4, false, "count")
	n := int(binary.BigEndian.Uint32(p[128:]))
	m.Ends = append(m.Ends, base+128, base+132)
	for i := 0; i < n && i < 200 && 132+12*i+12 <= len(p); i++ {
		e := 132 + 12*i
		m.add("icc.tag.sig", base+e, 4, false, "type")
		m.add("icc.tag.offset", base+e+4, 4, false, "offset")
		m.add("icc.tag.size", base+e+8, 4, false, "length")
		off := int(binary.BigEndian.Uint32(p[e+4:]))
		sz := int(binary.BigEndian.Uint32(p[e+8:]))
		if off >= 0 && sz >= 16 && off+sz <= len(p) && off+16 <= len(p) {
			switch string(p[off : off+4]) {
			case "desc":
				m.add("icc.desc.asciicount", base+off+8, 4, false, "count")
			case "mluc":
				m.add("icc.mluc.count", base+off+8, 4, false, "count")
				m.add("icc.mluc.recsize", base+off+12, 4, false, "length")
				nr := int(binary.BigEndian.Uint32(p[off+8:]))
				for r := 0; r < nr && r < 8 && off+16+12*r+12 <= len(p); r++ {
					m.add("icc.mluc.rec.length", base+off+16+12*r+4, 4, false, "length")
					m.add("icc.mluc.rec.offset", base+off+16+12*r+8, 4, false, "offset")
				}
			}
		}
	}
	m.Ends = append(m.Ends, base+132+12*n)
	return m
}

// DescCandidates parses a profile leniently and returns the strings a multi-localised description tag offers:
// the text of every English record if there is one, else of every record.  mluc is false when the description is
// not an mluc tag (or cannot be located), in which case the description is a single well-defined string.
// Code that may return "an English record, otherwise some record" is free to return any member of the set.
func DescCandidates(p []byte) (set []string, mluc bool) {
	if len(p) < 132 {
		return nil, false
	}
	n := int(binary.BigEndian.Uint32(p[128:]))
	for i := 0; i < n && 132+12*i+12 <= len(p); i++ {
		e := p[132+12*i:]
		if string(e[:4]) != "desc" {
			continue
		}
		off := int(binary.BigEndian.Uint32(e[4:]))
		if off < 0 || off+16 > len(p) || string(p[off:off+4]) != "mluc" {
			return nil, false
		}
		t := p[off:]
		cnt := int(binary.BigEndian.Uint32(t[8:]))
		var en, all []string
		for r := 0; r < cnt && 16+12*r+12 <= len(t); r++ {
			rec := t[16+12*r:]
			ln, so := int(binary.BigEndian.Uint32(rec[4:])), int(binary.BigEndian.Uint32(rec[8:]))
			if ln < 0 || so < 0 || so+ln > len(t) || so+ln < so {
				continue
			}
			u := make([]uint16, 0, ln/2)
			for k := 0; k+1 < ln; k += 2 {
				u = append(u, uint16(t[so+k])<<8|uint16(t[so+k+1]))
			}
			s := string(utf16.Decode(u))
			all = append(all, s)
			if rec[0] == 'e' && rec[1] == 'n' {
				en = append(en, s)
			}
		}
		if len(en) > 0 {
			return en, true
		}
		return all, true
	}
	return nil, false
}
