package build

import (
	"bytes"
	"encoding/binary"
	"fmt"
)

// Real-world application-segment vocabulary for JPEG files: the payloads cameras, phones and editors actually write
// next to the frame header and the ICC chunks.  None of them is an ICC_PROFILE APP2 segment, so none may change what
// a loader reports; all of them have inner structure (lengths, counts, offsets) of their own, which AppFields
// describes so that the mutators can aim at it.

// VocabKinds lists the kinds Vocab knows.
var VocabKinds = []string{"jfif", "jfxx", "exif", "xmp", "xmpext", "mpf", "fpxr", "photoshop", "adobe", "ducky", "com"}

type tiffEntry struct {
	tag, typ uint16
	count    uint32
	inline   []byte // <= 4 bytes, else data goes out of line
	data     []byte
	subIFD   []tiffEntry
}

// tiff serialises one IFD (with out-of-line data and sub-IFDs after it) in the given byte order.
func tiff(little bool, entries []tiffEntry) []byte {
	var bo binary.AppendByteOrder = binary.BigEndian
	hdr := []byte("MM\x00*")
	if little {
		bo = binary.LittleEndian
		hdr = []byte("II*\x00")
	}
	out := append([]byte(nil), hdr...)
	out = bo.AppendUint32(out, 8)
	var emit func(base int, es []tiffEntry) []byte
	emit = func(base int, es []tiffEntry) []byte {
		ifd := bo.AppendUint16(nil, uint16(len(es)))
		var tail []byte
		tailAt := base + 2 + 12*len(es) + 4
		for _, e := range es {
			ifd = bo.AppendUint16(ifd, e.tag)
			ifd = bo.AppendUint16(ifd, e.typ)
			ifd = bo.AppendUint32(ifd, e.count)
			switch {
			case e.subIFD != nil:
				ifd = bo.AppendUint32(ifd, uint32(tailAt+len(tail)))
				tail = append(tail, emit(tailAt+len(tail), e.subIFD)...)
			case e.data != nil:
				ifd = bo.AppendUint32(ifd, uint32(tailAt+len(tail)))
				tail = append(tail, e.data...)
				if len(tail)%2 == 1 {
					tail = append(tail, 0)
				}
			default:
				v := append(append([]byte(nil), e.inline...), 0, 0, 0, 0)[:4]
				ifd = append(ifd, v...)
			}
		}
		ifd = bo.AppendUint32(ifd, 0) // no next IFD
		return append(ifd, tail...)
	}
	return append(out, emit(8, entries)...)
}

func short(little bool, v uint16) []byte {
	if little {
		return []byte{byte(v), byte(v >> 8)}
	}
	return []byte{byte(v >> 8), byte(v)}
}

func long(little bool, v uint32) []byte {
	if little {
		return binary.LittleEndian.AppendUint32(nil, v)
	}
	return binary.BigEndian.AppendUint32(nil, v)
}

// psBlock builds one Photoshop image resource block.
func psBlock(id uint16, name string, data []byte) []byte {
	b := []byte("8BIM")
	b = binary.BigEndian.AppendUint16(b, id)
	b = append(b, byte(len(name)))
	b = append(b, name...)
	if (1+len(name))%2 == 1 {
		b = append(b, 0)
	}
	b = binary.BigEndian.AppendUint32(b, uint32(len(data)))
	b = append(b, data...)
	if len(data)%2 == 1 {
		b = append(b, 0)
	}
	return b
}

// Vocab builds the application segment of the given kind; v varies its contents deterministically.
func Vocab(kind string, v int) Seg {
	if v < 0 {
		v = -v
	}
	little := v%2 == 1
	var s Seg
	switch kind {
	case "jfif":
		xt, yt := v%3, v/3%2
		d := []byte("JFIF\x00\x01\x02")
		d = append(d, byte(v%3), 0, 72, 0, 72, byte(xt), byte(yt))
		d = append(d, bytes.Repeat([]byte{0x80, 0xFF, 0x01}, xt*yt)...)
		s = Seg{Marker: 0xE0, Data: d}
	case "jfxx":
		s = Seg{Marker: 0xE0, Data: []byte{'J', 'F', 'X', 'X', 0, 0x13, 1, 1, 10, 20, 30}}
	case "exif":
		sub := []tiffEntry{
			{tag: 0x9000, typ: 7, count: 4, inline: []byte("0232")},
			{tag: 0xA001, typ: 3, count: 1, inline: short(little, []uint16{1, 2, 65535}[v/2%3])},
			{tag: 0xA002, typ: 4, count: 1, inline: long(little, 4000)},
			{tag: 0x927C, typ: 7, count: uint32(20 + v%50), data: bytes.Repeat([]byte{0xFF, 0xD8, 0xFF, 0xE2, 0x00}, 4+v%50/5+1)[:20+v%50]},
		}
		es := []tiffEntry{
			{tag: 0x010F, typ: 2, count: 6, data: []byte("Maker\x00")},
			{tag: 0x0112, typ: 3, count: 1, inline: short(little, uint16(1+v%8))},
			{tag: 0x011A, typ: 5, count: 1, data: append(long(little, 72), long(little, 1)...)},
			{tag: 0x8769, typ: 4, count: 1, subIFD: sub},
		}
		if v%3 == 0 {
			p := SimpleProfile(TextDesc("exif"), v%7)
			es = append(es, tiffEntry{tag: 0x8773, typ: 7, count: uint32(len(p)), data: p})
		}
		s = Seg{Marker: 0xE1, Data: append([]byte("Exif\x00\x00"), tiff(little, es)...)}
	case "xmp":
		x := fmt.Sprintf("<?xpacket begin='\xef\xbb\xbf' id='W5M0MpCehiHzreSzNTczkc9d'?><x:xmpmeta xmlns:x='adobe:ns:meta/'><rdf:RDF xmlns:rdf='http://www.w3.org/1999/02/22-rdf-syntax-ns#'><rdf:Description xmlns:photoshop='http://ns.adobe.com/photoshop/1.0/' photoshop:ICCProfile='Display P3' photoshop:ColorMode='%d'/></rdf:RDF></x:xmpmeta>%s<?xpacket end='w'?>", v%5, bytes.Repeat([]byte(" "), v%200))
		s = Seg{Marker: 0xE1, Data: append([]byte("http://ns.adobe.com/xap/1.0/\x00"), x...)}
	case "xmpext":
		d := []byte("http://ns.adobe.com/xmp/extension/\x00")
		d = append(d, "0123456789ABCDEF0123456789ABCDEF"...)
		body := bytes.Repeat([]byte("<x/>"), 5+v%40)
		d = binary.BigEndian.AppendUint32(d, uint32(len(body)*2))
		d = binary.BigEndian.AppendUint32(d, uint32(v%2*len(body)))
		s = Seg{Marker: 0xE1, Data: append(d, body...)}
	case "mpf":
		n := 2 + v/2%2
		mp := []byte{}
		for i := 0; i < n; i++ {
			mp = append(mp, long(little, uint32(0x030000+i))...)
			mp = append(mp, long(little, uint32(1000*(i+1)))...)
			mp = append(mp, long(little, uint32(5000*i))...)
			mp = append(mp, 0, 0, 0, 0)
		}
		es := []tiffEntry{
			{tag: 0xB000, typ: 7, count: 4, inline: []byte("0100")},
			{tag: 0xB001, typ: 4, count: 1, inline: long(little, uint32(n))},
			{tag: 0xB002, typ: 7, count: uint32(len(mp)), data: mp},
		}
		s = Seg{Marker: 0xE2, Data: append([]byte("MPF\x00"), tiff(little, es)...)}
	case "fpxr":
		d := []byte("FPXR\x00\x00\x01\x00\x01")
		d = binary.BigEndian.AppendUint32(d, 0xFFFFFFFF) // storage: no stream size
		d = append(d, 0xFF)
		for _, c := range "\x05SummaryInformation" {
			d = append(d, byte(c), 0)
		}
		d = append(d, 0, 0)
		d = append(d, bytes.Repeat([]byte{byte(v), 0x10, 0xEF}, 6)[:16]...)
		s = Seg{Marker: 0xE2, Data: d}
	case "photoshop":
		d := []byte("Photoshop 3.0\x00")
		iptc := []byte("\x1c\x02\x00\x00\x02\x00\x04\x1c\x02\x78\x00\x05hello")
		res := []byte{0, 72, 0, 0, 0, 1, 0, 1, 0, 72, 0, 0, 0, 1, 0, 1}
		names := []string{"", "", "caption", "x"}
		blocks := [][]byte{
			psBlock(0x0404, names[v%4], iptc),
			psBlock(0x03ED, names[(v+1)%4], res),
			psBlock(0x0425, "", bytes.Repeat([]byte{0xA5}, 16)),
			psBlock(0x040F, names[(v+2)%4], SimpleProfile(TextDesc("ps"), v%5)),
			psBlock(0x0409, "", bytes.Repeat([]byte{1, 2, 3}, 9+v%8)),
		}
		// v chooses which blocks appear and in which rotation; an ICC resource (0x040F) is present in half of them
		rot := v / 4 % len(blocks)
		for i := range blocks {
			b := blocks[(i+rot)%len(blocks)]
			if i >= 2+v%4 {
				break
			}
			d = append(d, b...)
		}
		s = Seg{Marker: 0xED, Data: d}
	case "adobe":
		s = Seg{Marker: 0xEE, Data: []byte{'A', 'd', 'o', 'b', 'e', 0, 100, 0x80, 0, 0, 0, byte(v % 3)}}
	case "ducky":
		s = Seg{Marker: 0xEC, Data: []byte{'D', 'u', 'c', 'k', 'y', 0, 1, 0, 4, 0, 0, 0, byte(v % 101), 0, 0}}
	default:
		s = Seg{Marker: 0xFE, Data: []byte(fmt.Sprintf("Created with a camera, mode %d \xff\xd9 \xff\xe2", v))}
	}
	return s
}

// AppFields describes the inner numeric fields of a recognised application-segment payload (offsets relative to
// the payload's first byte).
func AppFields(marker byte, d []byte) []Field {
	var out []Field
	add := func(name string, off, n int, le bool, kind string) {
		if off >= 0 && off+n <= len(d) {
			out = append(out, Field{name, off, n, le, kind})
		}
	}
	walkTIFF := func(base int, prefix string) {
		if base+8 > len(d) {
			return
		}
		le := d[base] == 'I'
		var bo binary.ByteOrder = binary.BigEndian
		if le {
			bo = binary.LittleEndian
		}
		add(prefix+".ifd0", base+4, 4, le, "offset")
		var walk func(off, depth int)
		walk = func(off, depth int) {
			p := base + off
			if p+2 > len(d) || depth > 2 {
				return
			}
			n := int(bo.Uint16(d[p:]))
			add(prefix+".ifd.count", p, 2, le, "count")
			for i := 0; i < n && i < 24; i++ {
				e := p + 2 + 12*i
				if e+12 > len(d) {
					return
				}
				add(prefix+".entry.tag", e, 2, le, "type")
				add(prefix+".entry.type", e+2, 2, le, "type")
				add(prefix+".entry.count", e+4, 4, le, "count")
				add(prefix+".entry.value", e+8, 4, le, "offset")
				if tag := bo.Uint16(d[e:]); tag == 0x8769 || tag == 0x8825 {
					walk(int(bo.Uint32(d[e+8:])), depth+1)
				}
			}
			add(prefix+".ifd.next", p+2+12*n, 4, le, "offset")
		}
		walk(int(bo.Uint32(d[base+4:])), 0)
	}
	switch {
	case marker == 0xED && bytes.HasPrefix(d, []byte("Photoshop 3.0\x00")):
		p := 14
		for p+12 <= len(d) && string(d[p:p+4]) == "8BIM" {
			add("jpeg.psir.id", p+4, 2, false, "type")
			add("jpeg.psir.namelen", p+6, 1, false, "length")
			nl := int(d[p+6])
			q := p + 7 + nl
			if (1+nl)%2 == 1 {
				q++
			}
			if q+4 > len(d) {
				break
			}
			add("jpeg.psir.size", q, 4, false, "length")
			sz := int(binary.BigEndian.Uint32(d[q:]))
			if sz < 0 || q+4+sz > len(d) {
				break
			}
			p = q + 4 + sz + sz%2
		}
	case marker == 0xE1 && bytes.HasPrefix(d, []byte("Exif\x00\x00")):
		walkTIFF(6, "jpeg.exif")
	case marker == 0xE2 && bytes.HasPrefix(d, []byte("MPF\x00")):
		walkTIFF(4, "jpeg.mpf")
	case marker == 0xE1 && bytes.HasPrefix(d, []byte("http://ns.adobe.com/xmp/extension/\x00")):
		add("jpeg.xmpext.full", 35+32, 4, false, "length")
		add("jpeg.xmpext.offset", 35+32+4, 4, false, "offset")
	case marker == 0xE0 && bytes.HasPrefix(d, []byte("JFIF\x00")):
		add("jpeg.jfif.xthumb", 12, 1, false, "count")
		add("jpeg.jfif.ythumb", 13, 1, false, "count")
	case marker == 0xE2 && bytes.HasPrefix(d, []byte("FPXR\x00")):
		add("jpeg.fpxr.type", 6, 1, false, "type")
		add("jpeg.fpxr.count", 7, 2, false, "count")
		add("jpeg.fpxr.size", 9, 4, false, "length")
	case marker == 0xEE && bytes.HasPrefix(d, []byte("Adobe")):
		add("jpeg.adobe.transform", 11, 1, false, "type")
	}
	return out
}
