// Package build holds the harness' own writers for PNG, JPEG, WebP and ICC
// files.  Each builder also returns a field map: where every length / count /
// offset / dimension field lives and where each structure ends.
package build

import (
	"bytes"
	"compress/flate"
	"compress/zlib"
	"encoding/binary"
	"hash/crc32"
	"unicode/utf16"
)

// Field describes one numeric field of a built file.
type Field struct {
	Name   string `json:"name"`
	Off    int    `json:"off"`
	Len    int    `json:"len"`  // bytes
	Little bool   `json:"le"`   // little endian
	Kind   string `json:"kind"` // length, count, offset, dim, type, flags, other
}

// Map is the field map of a built file.
type Map struct {
	Fields []Field        `json:"fields"`
	Marks  map[string]int `json:"marks"` // named offsets, e.g. "needEnd"
	Ends   []int          `json:"ends"`  // offsets at which a structure ends
}

func newMap() *Map { return &Map{Marks: map[string]int{}} }

func (m *Map) add(name string, off, n int, le bool, kind string) {
	m.Fields = append(m.Fields, Field{name, off, n, le, kind})
}

// Get reads a field's current value from data.
func (f Field) Get(data []byte) uint64 {
	var v uint64
	if f.Off < 0 || f.Off+f.Len > len(data) {
		return 0
	}
	for i := 0; i < f.Len; i++ {
		if f.Little {
			v |= uint64(data[f.Off+i]) << (8 * uint(i))
		} else {
			v = v<<8 | uint64(data[f.Off+i])
		}
	}
	return v
}

// Set writes v into the field (truncated to its width).
func (f Field) Set(data []byte, v uint64) {
	if f.Off < 0 || f.Off+f.Len > len(data) {
		return
	}
	for i := 0; i < f.Len; i++ {
		if f.Little {
			data[f.Off+i] = byte(v >> (8 * uint(i)))
		} else {
			data[f.Off+i] = byte(v >> (8 * uint(f.Len-1-i)))
		}
	}
}

// ---------------------------------------------------------------- PNG

var PNGSig = []byte{0x89, 'P', 'N', 'G', 0x0D, 0x0A, 0x1A, 0x0A}

type Chunk struct {
	Type string `json:"type"`
	Data []byte `json:"data"`
}

type PNG struct {
	W, H      uint32
	Depth     byte
	ColorType byte
	Interlace byte
	Pre       []Chunk // chunks between IHDR and IDAT
	IDAT      []byte
	Post      []Chunk // chunks after IDAT, before IEND
	NoIEND    bool
	NoIDAT    bool // leave the image data chunk out (the file goes from its last pre-IDAT chunk to IEND)
}

// LegalPNG lists every legal (colour type, bit depth) pair.
var LegalPNG = [][2]byte{{0, 1}, {0, 2}, {0, 4}, {0, 8}, {0, 16}, {2, 8}, {2, 16}, {3, 1}, {3, 2}, {3, 4}, {3, 8}, {4, 8}, {4, 16}, {6, 8}, {6, 16}}

func appendChunk(b *bytes.Buffer, m *Map, typ string, data []byte) {
	off := b.Len()
	var l [4]byte
	binary.BigEndian.PutUint32(l[:], uint32(len(data)))
	b.Write(l[:])
	b.WriteString(typ)
	b.Write(data)
	crc := crc32.NewIEEE()
	crc.Write([]byte(typ))
	crc.Write(data)
	binary.BigEndian.PutUint32(l[:], crc.Sum32())
	b.Write(l[:])
	if m != nil {
		m.add("png."+typ+".length", off, 4, false, "length")
		m.add("png."+typ+".type", off+4, 4, false, "type")
		m.Ends = append(m.Ends, off+8, b.Len())
	}
}

// ICCPChunk builds an iCCP chunk.  level: flate level (-2 huffman only, 0 store, 1..9), name 1..79 bytes.
// StoredZlib writes a zlib stream of stored (uncompressed) deflate blocks of at most `block` bytes the way the
// reference zlib does at level 0: the LAST DATA BLOCK carries the final-block flag (Go's compress/zlib ends with
// an extra empty final block instead).  cinfo/flevel choose the header's window-size and level fields (any
// window is legal for stored blocks).  RFC 1950 / RFC 1951 section 3.2.4.
func StoredZlib(data []byte, block int, cinfo, flevel byte) []byte {
	if block < 1 || block > 65535 {
		block = 65535
	}
	cmf := cinfo<<4 | 8
	flg := flevel << 6
	flg += byte(31 - (uint16(cmf)<<8|uint16(flg))%31)
	if (uint16(cmf)<<8|uint16(flg))%31 != 0 {
		flg -= 31
	}
	out := []byte{cmf, flg}
	if len(data) == 0 {
		out = append(out, 1, 0, 0, 0xFF, 0xFF)
	}
	for off := 0; off < len(data); off += block {
		n := block
		final := byte(0)
		if off+n >= len(data) {
			n, final = len(data)-off, 1
		}
		out = append(out, final, byte(n), byte(n>>8), ^byte(n), ^byte(n>>8))
		out = append(out, data[off:off+n]...)
	}
	a, b := uint32(1), uint32(0)
	for _, c := range data {
		a = (a + uint32(c)) % 65521
		b = (b + a) % 65521
	}
	ad := b<<16 | a
	return append(out, byte(ad>>24), byte(ad>>16), byte(ad>>8), byte(ad))
}

// ICCPChunk compresses with compress/zlib at the given level; levels <= -10 select StoredZlib (reference-zlib
// style stored streams): -10 one block per 65535 bytes, -11 blocks of 1000 bytes, -12 blocks of 7 bytes with a
// small-window header.
func ICCPChunk(name string, profile []byte, level int) Chunk {
	if level <= -10 {
		z := StoredZlib(profile, []int{65535, 1000, 7}[(-level-10)%3], []byte{7, 7, 0}[(-level-10)%3], []byte{0, 2, 1}[(-level-10)%3])
		return RawICCPChunk(name, z)
	}
	var z bytes.Buffer
	w, _ := zlib.NewWriterLevel(&z, level)
	w.Write(profile)
	w.Close()
	d := append([]byte(name), 0, 0)
	d = append(d, z.Bytes()...)
	return Chunk{"iCCP", d}
}

// RawICCPChunk builds an iCCP chunk with an already compressed (possibly damaged) stream.
func RawICCPChunk(name string, zstream []byte) Chunk {
	d := append([]byte(name), 0, 0)
	return Chunk{"iCCP", append(d, zstream...)}
}

var _ = flate.BestSpeed

func (p PNG) Bytes() ([]byte, *Map) {
	m := newMap()
	var b bytes.Buffer
	b.Write(PNGSig)
	ihdr := make([]byte, 13)
	binary.BigEndian.PutUint32(ihdr[0:], p.W)
	binary.BigEndian.PutUint32(ihdr[4:], p.H)
	ihdr[8], ihdr[9], ihdr[12] = p.Depth, p.ColorType, p.Interlace
	appendChunk(&b, m, "IHDR", ihdr)
	m.add("png.width", 16, 4, false, "dim")
	m.add("png.height", 20, 4, false, "dim")
	m.add("png.depth", 24, 1, false, "other")
	m.add("png.colortype", 25, 1, false, "other")
	m.Marks["ihdrEnd"] = b.Len()
	iccEnd := -1
	for _, c := range p.Pre {
		appendChunk(&b, m, c.Type, c.Data)
		if c.Type == "iCCP" && iccEnd < 0 {
			iccEnd = b.Len()
		}
	}
	idatOff := b.Len()
	if !p.NoIDAT {
		appendChunk(&b, m, "IDAT", p.IDAT)
	}
	m.Marks["idatHeaderEnd"] = idatOff + 8
	if iccEnd >= 0 {
		m.Marks["needEnd"] = iccEnd
	} else {
		m.Marks["needEnd"] = idatOff + 8
	}
	for _, c := range p.Post {
		appendChunk(&b, m, c.Type, c.Data)
	}
	if !p.NoIEND {
		appendChunk(&b, m, "IEND", nil)
	}
	return b.Bytes(), m
}

// ---------------------------------------------------------------- JPEG

type Seg struct {
	Marker byte   `json:"marker"`
	Data   []byte `json:"data"`
	// Fill: number of 0xFF fill bytes written before the segment's marker (ITU T.81 B.1.1.2: "Any marker may
	// optionally be preceded by any number of fill bytes, which are bytes assigned code X'FF'")
	Fill int `json:"fill,omitempty"`
}

type JPEG struct {
	Segs    []Seg  // everything between SOI and SOS (SOF included, wherever the caller puts it)
	SOS     []byte // SOS header payload (nil: no scan at all)
	SOSFill int    // fill bytes before the SOS marker
	Entropy []byte // raw entropy-coded bytes (0xFF is stuffed by the builder)
	NoEOI   bool
}

// SOF builds a start-of-frame payload.  comps: (id, HV, Tq) triples.
func SOF(precision byte, h, w uint16, comps [][3]byte) []byte {
	d := []byte{precision, byte(h >> 8), byte(h), byte(w >> 8), byte(w), byte(len(comps))}
	for _, c := range comps {
		d = append(d, c[0], c[1], c[2])
	}
	return d
}

// ICCSegs splits a profile into APP2 segments with the given chunk sizes (the
// last chunk takes the rest); seq numbering 1..n in natural order.
func ICCSegs(profile []byte, sizes []int) []Seg {
	var parts [][]byte
	rest := profile
	for _, s := range sizes {
		if s > len(rest) {
			s = len(rest)
		}
		parts = append(parts, rest[:s])
		rest = rest[s:]
	}
	if len(rest) > 0 || len(parts) == 0 {
		parts = append(parts, rest)
	}
	var segs []Seg
	for i, p := range parts {
		segs = append(segs, ICCSeg(byte(i+1), byte(len(parts)), p))
	}
	return segs
}

func ICCSeg(num, total byte, part []byte) Seg {
	d := append([]byte("ICC_PROFILE\x00"), num, total)
	return Seg{Marker: 0xE2, Data: append(d, part...)}
}

func (j JPEG) Bytes() ([]byte, *Map) {
	m := newMap()
	var b bytes.Buffer
	b.Write([]byte{0xFF, 0xD8})
	sofEnd, lastICC := -1, -1
	for _, s := range j.Segs {
		b.Write(bytes.Repeat([]byte{0xFF}, s.Fill))
		off := b.Len()
		b.Write([]byte{0xFF, s.Marker, byte((len(s.Data) + 2) >> 8), byte(len(s.Data) + 2)})
		b.Write(s.Data)
		m.add("jpeg.seg.length", off+2, 2, false, "length")
		m.Ends = append(m.Ends, off+4, b.Len())
		for _, f := range AppFields(s.Marker, s.Data) {
			m.add(f.Name, off+4+f.Off, f.Len, f.Little, f.Kind)
		}
		if s.Marker == 0xC0 || s.Marker == 0xC2 {
			if sofEnd < 0 {
				sofEnd = b.Len()
			}
			m.add("jpeg.sof.height", off+5, 2, false, "dim")
			m.add("jpeg.sof.width", off+7, 2, false, "dim")
			m.add("jpeg.sof.ncomp", off+9, 1, false, "count")
		}
		if s.Marker == 0xE2 && bytes.HasPrefix(s.Data, []byte("ICC_PROFILE\x00")) && len(s.Data) >= 14 {
			lastICC = b.Len()
			m.add("jpeg.icc.num", off+4+12, 1, false, "count")
			m.add("jpeg.icc.total", off+4+13, 1, false, "count")
		}
	}
	m.Marks["sofEnd"] = sofEnd
	m.Marks["lastICCEnd"] = lastICC
	if j.SOS != nil {
		b.Write(bytes.Repeat([]byte{0xFF}, j.SOSFill))
		off := b.Len()
		b.Write([]byte{0xFF, 0xDA, byte((len(j.SOS) + 2) >> 8), byte(len(j.SOS) + 2)})
		b.Write(j.SOS)
		m.add("jpeg.sos.length", off+2, 2, false, "length")
		m.Marks["sosHeaderEnd"] = b.Len()
		m.Ends = append(m.Ends, off+4, b.Len())
		for _, e := range j.Entropy {
			b.WriteByte(e)
			if e == 0xFF {
				b.WriteByte(0)
			}
		}
	}
	if !j.NoEOI {
		b.Write([]byte{0xFF, 0xD9})
	}
	return b.Bytes(), m
}

// A valid DQT payload (8-bit precision, table id).
func DQT(id byte) []byte {
	d := []byte{id & 3}
	for i := 0; i < 64; i++ {
		d = append(d, byte(1+i))
	}
	return d
}

// A valid DHT payload (standard DC luminance table) for class/id.
func DHT(tc, th byte) []byte {
	d := []byte{tc<<4 | th&1}
	d = append(d, 0, 1, 5, 1, 1, 1, 1, 1, 1, 0, 0, 0, 0, 0, 0, 0)
	for i := 0; i < 12; i++ {
		d = append(d, byte(i))
	}
	return d
}

// ---------------------------------------------------------------- WebP

type RIFFChunk struct {
	FourCC string `json:"fourcc"`
	Data   []byte `json:"data"`
}

type WebP struct {
	Chunks   []RIFFChunk
	SizeBias int // added to the RIFF size field (0 for a consistent file)
}

func VP8Header(w, h uint16, xscale, yscale byte, partLen int) []byte {
	// frame tag: key frame (bit0 = 0), version 0, show_frame 1, first partition length
	tag := uint32(0) | 0<<1 | 1<<4 | uint32(partLen)<<5
	d := []byte{byte(tag), byte(tag >> 8), byte(tag >> 16), 0x9d, 0x01, 0x2a,
		byte(w), byte(w>>8)&0x3f | xscale<<6, byte(h), byte(h>>8)&0x3f | yscale<<6}
	return append(d, make([]byte, partLen)...)
}

func VP8LHeader(wm1, hm1 uint16, alpha bool) []byte {
	v := uint32(wm1&0x3fff) | uint32(hm1&0x3fff)<<14
	if alpha {
		v |= 1 << 28
	}
	return []byte{0x2f, byte(v), byte(v >> 8), byte(v >> 16), byte(v >> 24)}
}

func VP8XHeader(flags byte, wm1, hm1 uint32) []byte {
	return []byte{flags, 0, 0, 0, byte(wm1), byte(wm1 >> 8), byte(wm1 >> 16), byte(hm1), byte(hm1 >> 8), byte(hm1 >> 16)}
}

func (w WebP) Bytes() ([]byte, *Map) {
	m := newMap()
	var body bytes.Buffer
	body.WriteString("WEBP")
	for i, c := range w.Chunks {
		off := 8 + body.Len()
		body.WriteString(c.FourCC)
		var l [4]byte
		binary.LittleEndian.PutUint32(l[:], uint32(len(c.Data)))
		body.Write(l[:])
		body.Write(c.Data)
		if len(c.Data)%2 == 1 {
			m.Ends = append(m.Ends, 8+body.Len()) // the end of an odd payload, before its pad byte
			body.WriteByte(0)
		}
		m.add("webp."+c.FourCC+".length", off+4, 4, true, "length")
		m.add("webp."+c.FourCC+".type", off, 4, true, "type")
		m.Ends = append(m.Ends, off+8, 8+body.Len())
		switch c.FourCC {
		case "VP8 ":
			m.add("webp.vp8.width", off+8+6, 2, true, "dim")
			m.add("webp.vp8.height", off+8+8, 2, true, "dim")
			if _, ok := m.Marks["needEnd"]; !ok {
				m.Marks["needEnd"] = off + 8 + 10
			}
		case "VP8L":
			m.add("webp.vp8l.dims", off+8+1, 4, true, "dim")
			if _, ok := m.Marks["needEnd"]; !ok {
				m.Marks["needEnd"] = off + 8 + 5
			}
		case "VP8X":
			m.add("webp.vp8x.flags", off+8, 1, true, "flags")
			m.add("webp.vp8x.width", off+8+4, 3, true, "dim")
			m.add("webp.vp8x.height", off+8+7, 3, true, "dim")
			if i == 0 {
				m.Marks["needEnd"] = off + 8 + 10
				if len(c.Data) > 0 && c.Data[0]&0x20 != 0 && i+1 < len(w.Chunks) && w.Chunks[i+1].FourCC == "ICCP" {
					m.Marks["needEnd"] = off + 8 + 10 + 8 + len(w.Chunks[i+1].Data)
				}
			}
		}
	}
	var out bytes.Buffer
	out.WriteString("RIFF")
	var l [4]byte
	binary.LittleEndian.PutUint32(l[:], uint32(body.Len()+w.SizeBias))
	out.Write(l[:])
	out.Write(body.Bytes())
	m.add("webp.riff.size", 4, 4, true, "length")
	return out.Bytes(), m
}

// ---------------------------------------------------------------- ICC

type ICCTag struct {
	Sig   uint32 `json:"sig"`
	Data  []byte `json:"data"`
	Share int    `json:"share"` // index of an earlier tag whose data block this tag shares (-1: own block)
}

type ICC struct {
	Header   [128]byte
	Tags     []ICCTag
	Order    []int // layout order of the own-block tags (indices into Tags); nil = table order
	Pad      []int // padding bytes after each laid-out block (same indexing as Order)
	TablePad int   // padding between tag table and first block
	Trailer  int   // extra bytes after the last block
}

// DefaultHeader returns a plausible v4 header with the 'acsp' signature.
func DefaultHeader() [128]byte {
	var h [128]byte
	copy(h[4:], "ADBE")
	h[8], h[9] = 4, 0x30
	copy(h[12:], "mntr")
	copy(h[16:], "RGB ")
	copy(h[20:], "XYZ ")
	binary.BigEndian.PutUint16(h[24:], 2021)
	binary.BigEndian.PutUint16(h[26:], 3)
	binary.BigEndian.PutUint16(h[28:], 14)
	copy(h[36:], "acsp")
	copy(h[40:], "APPL")
	binary.BigEndian.PutUint32(h[68:], 0x0000F6D6)
	binary.BigEndian.PutUint32(h[72:], 0x00010000)
	binary.BigEndian.PutUint32(h[76:], 0x0000D32D)
	return h
}

func (p ICC) Bytes() ([]byte, *Map) {
	m := newMap()
	n := len(p.Tags)
	order := p.Order
	if order == nil {
		for i, t := range p.Tags {
			if t.Share < 0 {
				order = append(order, i)
			}
		}
	}
	offs := make([]int, n)
	pos := 128 + 4 + 12*n + p.TablePad
	var data bytes.Buffer
	data.Write(make([]byte, p.TablePad))
	for k, ti := range order {
		offs[ti] = pos
		data.Write(p.Tags[ti].Data)
		pos += len(p.Tags[ti].Data)
		pad := 0
		if k < len(p.Pad) {
			pad = p.Pad[k]
		}
		data.Write(make([]byte, pad))
		pos += pad
	}
	for i, t := range p.Tags {
		if t.Share >= 0 {
			offs[i] = offs[t.Share]
		}
	}
	data.Write(make([]byte, p.Trailer))
	total := 128 + 4 + 12*n + data.Len()
	out := make([]byte, 0, total)
	h := p.Header
	binary.BigEndian.PutUint32(h[0:], uint32(total))
	out = append(out, h[:]...)
	var w [4]byte
	binary.BigEndian.PutUint32(w[:], uint32(n))
	out = append(out, w[:]...)
	m.add("icc.size", 0, 4, false, "length")
	m.add("icc.tagcount", 128, 4, false, "count")
	for i, t := range p.Tags {
		e := 132 + 12*i
		size := len(t.Data)
		if t.Share >= 0 {
			size = len(p.Tags[t.Share].Data)
		}
		binary.BigEndian.PutUint32(w[:], t.Sig)
		out = append(out, w[:]...)
		binary.BigEndian.PutUint32(w[:], uint32(offs[i]))
		out = append(out, w[:]...)
		binary.BigEndian.PutUint32(w[:], uint32(size))
		out = append(out, w[:]...)
		m.add("icc.tag.sig", e, 4, false, "type")
		m.add("icc.tag.offset", e+4, 4, false, "offset")
		m.add("icc.tag.size", e+8, 4, false, "length")
		// inner fields of description tags
		if t.Share < 0 && len(t.Data) >= 12 {
			switch string(t.Data[:4]) {
			case "desc":
				m.add("icc.desc.asciicount", offs[i]+8, 4, false, "count")
			case "mluc":
				m.add("icc.mluc.count", offs[i]+8, 4, false, "count")
				m.add("icc.mluc.recsize", offs[i]+12, 4, false, "length")
				nrec := int(binary.BigEndian.Uint32(t.Data[8:]))
				for r := 0; r < nrec && 16+12*r+12 <= len(t.Data) && r < 8; r++ {
					m.add("icc.mluc.rec.length", offs[i]+16+12*r+4, 4, false, "length")
					m.add("icc.mluc.rec.offset", offs[i]+16+12*r+8, 4, false, "offset")
				}
			}
		}
	}
	m.Ends = append(m.Ends, 128, 132, 132+12*n)
	out = append(out, data.Bytes()...)
	m.Ends = append(m.Ends, len(out))
	return out, m
}

// TextDesc builds a v2 textDescriptionType tag.
func TextDesc(ascii string) []byte {
	var b bytes.Buffer
	b.WriteString("desc")
	b.Write([]byte{0, 0, 0, 0})
	var w [4]byte
	binary.BigEndian.PutUint32(w[:], uint32(len(ascii)+1))
	b.Write(w[:])
	b.WriteString(ascii)
	b.WriteByte(0)
	// unicode: language code, count 0; scriptcode: code, count 0, 67 bytes
	b.Write(make([]byte, 4+4))
	b.Write(make([]byte, 2+1+67))
	return b.Bytes()
}

// TextDescFull lays out every part of an ICC v2 textDescriptionType as the specification defines it - the ASCII
// count and bytes, the Unicode language code, count and UTF-16BE bytes, the ScriptCode code, count and its 67-byte
// field - with every count taken from the argument rather than from the data, so that counts and data can disagree.
func TextDescFull(asciiCount uint32, ascii []byte, ucLang, ucCount uint32, uc []byte, scCode uint16, scCount uint8, sc []byte) []byte {
	var b bytes.Buffer
	b.WriteString("desc")
	b.Write([]byte{0, 0, 0, 0})
	var w [4]byte
	binary.BigEndian.PutUint32(w[:], asciiCount)
	b.Write(w[:])
	b.Write(ascii)
	binary.BigEndian.PutUint32(w[:], ucLang)
	b.Write(w[:])
	binary.BigEndian.PutUint32(w[:], ucCount)
	b.Write(w[:])
	b.Write(uc)
	binary.BigEndian.PutUint16(w[:2], scCode)
	b.Write(w[:2])
	b.WriteByte(scCount)
	b.Write(sc)
	return b.Bytes()
}

// MlucRec is one multiLocalizedUnicode record.
type MlucRec struct {
	Lang, Country [2]byte
	Text          string
}

// Mluc builds a v4 multiLocalizedUnicodeType tag.  strOrder gives the order in
// which the strings are stored (indices into recs; nil = record order);
// shareWith[i] >= 0 makes record i point at the string of that other record
// (which must have identical text); gap adds unused bytes between strings.
func Mluc(recs []MlucRec, strOrder []int, shareWith []int, gap int) []byte {
	return MlucSkip(recs, strOrder, shareWith, nil, gap)
}

// MlucSkip is Mluc with overlapping strings: a sharing record i starts
// shareSkip[i] UTF-16 units into the string it shares (its text must be that suffix).
func MlucSkip(recs []MlucRec, strOrder []int, shareWith []int, shareSkip []int, gap int) []byte {
	n := len(recs)
	if strOrder == nil {
		for i := range recs {
			strOrder = append(strOrder, i)
		}
	}
	offs := make([]int, n)
	lens := make([]int, n)
	pos := 16 + 12*n
	var strs bytes.Buffer
	for _, ri := range strOrder {
		if shareWith != nil && shareWith[ri] >= 0 {
			continue
		}
		u := utf16.Encode([]rune(recs[ri].Text))
		pos += gap
		strs.Write(make([]byte, gap))
		offs[ri] = pos
		lens[ri] = 2 * len(u)
		for _, c := range u {
			strs.Write([]byte{byte(c >> 8), byte(c)})
		}
		pos += 2 * len(u)
	}
	for i := range recs {
		if shareWith != nil && shareWith[i] >= 0 {
			offs[i], lens[i] = offs[shareWith[i]], lens[shareWith[i]]
			if shareSkip != nil && shareSkip[i] > 0 && 2*shareSkip[i] <= lens[i] {
				offs[i] += 2 * shareSkip[i]
				lens[i] -= 2 * shareSkip[i]
			}
		}
	}
	var b bytes.Buffer
	b.WriteString("mluc")
	b.Write([]byte{0, 0, 0, 0})
	var w [4]byte
	binary.BigEndian.PutUint32(w[:], uint32(n))
	b.Write(w[:])
	binary.BigEndian.PutUint32(w[:], 12)
	b.Write(w[:])
	for i, r := range recs {
		b.Write(r.Lang[:])
		b.Write(r.Country[:])
		binary.BigEndian.PutUint32(w[:], uint32(lens[i]))
		b.Write(w[:])
		binary.BigEndian.PutUint32(w[:], uint32(offs[i]))
		b.Write(w[:])
	}
	b.Write(strs.Bytes())
	return b.Bytes()
}

// SimpleProfile returns a small well-formed profile with the given description tag data.
func SimpleProfile(desc []byte, extra int) []byte {
	p := ICC{Header: DefaultHeader()}
	p.Tags = append(p.Tags, ICCTag{Sig: 0x64657363, Data: desc, Share: -1})
	if extra > 0 {
		x := make([]byte, extra)
		copy(x, "text\x00\x00\x00\x00")
		for i := 8; i < len(x); i++ {
			x[i] = byte(i*131 + i>>8)
		}
		p.Tags = append(p.Tags, ICCTag{Sig: 0x63707274, Data: x, Share: -1})
	}
	b, _ := p.Bytes()
	return b
}
