// Package mut holds structure-aware mutation operators over built files and
// the hostile value table used by C09's field matrix.
package mut

import (
	"bytes"
	"fmt"
	"sort"

	"pgregory.net/rapid"

	"verif/internal/build"
)

// Op is one serialisable mutation.
type Op struct {
	Kind  string `json:"kind"` // set, trunc, dup, drop, swap, splice, flip, type
	Field int    `json:"field,omitempty"`
	Value uint64 `json:"value,omitempty"`
	A     int    `json:"a,omitempty"`
	B     int    `json:"b,omitempty"`
	C     int    `json:"c,omitempty"`
}

func (o Op) String() string {
	return fmt.Sprintf("%s(f=%d v=%#x a=%d b=%d c=%d)", o.Kind, o.Field, o.Value, o.A, o.B, o.C)
}

// HostileValues returns the boundary values tried for a field of width n bytes
// whose current value is cur; remaining = bytes after the field in the file.
func HostileValues(cur uint64, width int, remaining int) []uint64 {
	max := uint64(1)<<(8*uint(width)) - 1
	if width >= 8 {
		max = ^uint64(0)
	}
	c := []uint64{0, 1, 2, 7, 8, 9, 11, 12, 13, 127, 128, 255, 256, 65535, 65536, 1<<24 - 1, 1 << 24, 1<<31 - 1, 1 << 31, 1<<32 - 1,
		1<<32 - 2, 1<<32 - 4, 1<<32 - 8, 1<<32 - 12, 1<<32 - 16, 1<<32 - 128, 1<<32 - 132, 0x80000000 + 12, 0xFFFFFF00,
		cur + 1, cur - 1, cur + 12, cur - 12, cur * 2, cur + 4096, uint64(remaining), uint64(remaining) + 1, uint64(remaining) - 1,
		max, max - 1, max / 2, max/2 + 1, (1 << 32) - cur, (1 << 32) - cur + 1}
	if width == 4 {
		if Full {
			c = append(c, 1<<32-6, 1<<32-10, 1<<32-14, 1<<32-20, 1<<32-24)
			c = append(c, WrapValues(remaining)...)
		} else {
			for _, m := range []uint64{2, 12} {
				base := (uint64(1)<<32 + m - 1) / m
				c = append(c, base, base+1, base+uint64(remaining)/m)
			}
		}
	}
	seen := map[uint64]bool{}
	var out []uint64
	for _, v := range c {
		v &= max
		if !seen[v] && v != cur {
			seen[v] = true
			out = append(out, v)
		}
	}
	return out
}

// Full selects the complete wrap-value set in HostileValues (thorough tier); the quick tier uses multipliers 2 and 12.
var Full bool

// WrapValues returns counts whose product with a small element size (2, 4, 8, 12, 16) wraps 2^32 to a value at
// most a little above remaining: a bound check done on the wrapped product passes while the count itself is huge.
func WrapValues(remaining int) []uint64 {
	var out []uint64
	for _, m := range []uint64{2, 4, 8, 12, 16} {
		base := (uint64(1)<<32 + m - 1) / m // smallest count whose product reaches 2^32
		out = append(out, base, base+1, base+2)
		if remaining > 0 {
			out = append(out, base+uint64(remaining)/m, base+uint64(remaining)/m-1)
		}
	}
	return out
}

func ends(m *build.Map, n int) []int {
	set := map[int]bool{0: true, n: true}
	if m != nil {
		for _, e := range m.Ends {
			if e >= 0 && e <= n {
				set[e] = true
			}
		}
	}
	var out []int
	for e := range set {
		out = append(out, e)
	}
	sort.Ints(out)
	return out
}

// Apply applies ops in order to a copy of data.
func Apply(data []byte, m *build.Map, ops []Op, other []byte) []byte {
	d := append([]byte(nil), data...)
	for _, o := range ops {
		switch o.Kind {
		case "set":
			if m != nil && o.Field >= 0 && o.Field < len(m.Fields) {
				m.Fields[o.Field].Set(d, o.Value)
			}
		case "trunc":
			if o.A >= 0 && o.A < len(d) {
				d = d[:o.A]
			}
		case "flip":
			if o.A >= 0 && o.A < len(d) {
				d[o.A] ^= byte(o.Value)
			}
		case "dup": // duplicate range [A,B) in place
			if 0 <= o.A && o.A < o.B && o.B <= len(d) && o.B-o.A < 1<<20 {
				nd := append([]byte(nil), d[:o.B]...)
				nd = append(nd, d[o.A:o.B]...)
				d = append(nd, d[o.B:]...)
			}
		case "drop":
			if 0 <= o.A && o.A < o.B && o.B <= len(d) {
				d = append(append([]byte(nil), d[:o.A]...), d[o.B:]...)
			}
		case "swap": // swap adjacent ranges [A,B) and [B,C)
			if 0 <= o.A && o.A < o.B && o.B < o.C && o.C <= len(d) {
				nd := append([]byte(nil), d[:o.A]...)
				nd = append(nd, d[o.B:o.C]...)
				nd = append(nd, d[o.A:o.B]...)
				d = append(nd, d[o.C:]...)
			}
		case "splice": // keep d[:A], append other[B:]
			if o.A >= 0 && o.A <= len(d) && o.B >= 0 && o.B <= len(other) {
				d = append(append([]byte(nil), d[:o.A]...), other[o.B:]...)
			}
		case "run": // insert B copies of byte Value at position A
			if o.A >= 0 && o.A <= len(d) && o.B > 0 && o.B <= 1<<20 {
				nd := append([]byte(nil), d[:o.A]...)
				nd = append(nd, bytes.Repeat([]byte{byte(o.Value)}, o.B)...)
				d = append(nd, d[o.A:]...)
			}
		case "type":
			if m != nil && o.Field >= 0 && o.Field < len(m.Fields) {
				f := m.Fields[o.Field]
				if f.Off+f.Len <= len(d) {
					for i := 0; i < f.Len; i++ {
						d[f.Off+i] = byte(o.Value >> (8 * uint(i)))
					}
				}
			}
		}
	}
	return d
}

var fourccs = []string{"IHDR", "iCCP", "IDAT", "IEND", "PLTE", "VP8 ", "VP8L", "VP8X", "ICCP", "RIFF", "WEBP", "desc", "mluc", "acsp", "ALPH", "tEXt"}
var markers = []uint64{0xD8, 0xD9, 0xDA, 0xC0, 0xC2, 0xC4, 0xDB, 0xE2, 0xE0, 0xFE, 0xD0, 0x00, 0xFF, 0x01, 0xC1}

// Gen draws 1..max operators for a file.
func Gen(t *rapid.T, data []byte, m *build.Map, otherLen int, otherEnds []int, max int) []Op {
	n := rapid.IntRange(1, max).Draw(t, "nops")
	es := ends(m, len(data))
	var ops []Op
	for i := 0; i < n; i++ {
		kinds := []string{"set", "set", "set", "trunc", "flip", "dup", "drop", "swap", "splice", "type", "run"}
		if m == nil || len(m.Fields) == 0 {
			kinds = []string{"trunc", "flip", "dup", "drop", "swap", "splice", "run"}
		}
		k := rapid.SampledFrom(kinds).Draw(t, "opkind")
		o := Op{Kind: k}
		switch k {
		case "set":
			o.Field = rapid.IntRange(0, len(m.Fields)-1).Draw(t, "field")
			f := m.Fields[o.Field]
			hv := HostileValues(f.Get(data), f.Len, len(data)-f.Off-f.Len)
			if rapid.IntRange(0, 4).Draw(t, "rawvalue") == 0 {
				o.Value = rapid.Uint64().Draw(t, "value")
			} else {
				o.Value = rapid.SampledFrom(hv).Draw(t, "hostile")
			}
		case "trunc":
			if rapid.Bool().Draw(t, "atboundary") {
				o.A = rapid.SampledFrom(es).Draw(t, "cutb") + rapid.IntRange(-1, 1).Draw(t, "cutd")
			} else {
				o.A = rapid.IntRange(0, len(data)).Draw(t, "cut")
			}
		case "run":
			// a run of one byte value (padding, fill bytes, zeros) at the start, after the signature or at a
			// structure boundary; lengths around the sizes of look-ahead windows and buffers
			switch rapid.IntRange(0, 3).Draw(t, "runat") {
			case 0:
				o.A = 0
			case 1:
				o.A = rapid.SampledFrom([]int{2, 4, 8, 12}).Draw(t, "runsig")
				if o.A > len(data) {
					o.A = len(data)
				}
			default:
				o.A = rapid.SampledFrom(es).Draw(t, "runb")
			}
			o.B = rapid.SampledFrom([]int{1, 2, 3, 7, 8, 15, 16, 31, 32, 62, 63, 64, 65, 127, 128, 255, 256, 511, 512, 4094, 4095, 4096, 4097, 8192, 70000}).Draw(t, "runlen")
			o.Value = uint64(rapid.SampledFrom([]int{0xFF, 0xFF, 0x00, 0x20, 0xD8, 0x89}).Draw(t, "runbyte"))
		case "flip":
			o.A = rapid.IntRange(0, maxi(0, len(data)-1)).Draw(t, "pos")
			if rapid.Bool().Draw(t, "early") && len(data) > 64 {
				o.A = rapid.IntRange(0, 63).Draw(t, "earlypos")
			}
			o.Value = uint64(rapid.IntRange(1, 255).Draw(t, "mask"))
		case "dup", "drop":
			a := rapid.IntRange(0, len(es)-1).Draw(t, "ra")
			b := rapid.IntRange(a, mini(len(es)-1, a+3)).Draw(t, "rb")
			o.A, o.B = es[a], es[b]
		case "swap":
			a := rapid.IntRange(0, len(es)-1).Draw(t, "ra")
			b := rapid.IntRange(a, mini(len(es)-1, a+2)).Draw(t, "rb")
			c := rapid.IntRange(b, mini(len(es)-1, b+2)).Draw(t, "rc")
			o.A, o.B, o.C = es[a], es[b], es[c]
		case "splice":
			o.A = rapid.SampledFrom(es).Draw(t, "sa")
			if len(otherEnds) > 0 {
				o.B = rapid.SampledFrom(otherEnds).Draw(t, "sb")
			}
			if o.B > otherLen {
				o.B = otherLen
			}
		case "type":
			var tf []int
			for fi, f := range m.Fields {
				if f.Kind == "type" {
					tf = append(tf, fi)
				}
			}
			if len(tf) == 0 {
				o.Kind = "flip"
				o.A, o.Value = 0, 1
				break
			}
			o.Field = rapid.SampledFrom(tf).Draw(t, "typefield")
			if m.Fields[o.Field].Len == 1 {
				o.Value = rapid.SampledFrom(markers).Draw(t, "marker")
			} else {
				fc := rapid.SampledFrom(fourccs).Draw(t, "fourcc")
				o.Value = uint64(fc[0]) | uint64(fc[1])<<8 | uint64(fc[2])<<16 | uint64(fc[3])<<24
			}
		}
		ops = append(ops, o)
	}
	return ops
}

// Ends exposes the sorted structural boundaries of a file.
func Ends(m *build.Map, n int) []int { return ends(m, n) }

func mini(a, b int) int {
	if a < b {
		return a
	}
	return b
}
func maxi(a, b int) int {
	if a > b {
		return a
	}
	return b
}
