// Package img builds standard-library images from a JSON-serialisable Spec:
// every concrete image type, arbitrary bounds/origin, optional sub-image of a
// larger parent (stride > width, bytes before/after the visible rectangle),
// deterministic pixel fill, optional opaque wrapper hiding the concrete type.
package img

import (
	"image"
	"image/color"
	"image/draw"

	"pgregory.net/rapid"
)

type Spec struct {
	Type   string `json:"type"` // RGBA64 NRGBA64 RGBA NRGBA YCbCr NYCbCrA Gray Gray16 Alpha Alpha16 CMYK Paletted
	Ratio  int    `json:"ratio,omitempty"`
	Rect   [4]int `json:"rect"`   // visible bounds x0,y0,x1,y1
	Parent [4]int `json:"parent"` // parent bounds (== Rect when not a sub-image)
	Fill   string `json:"fill"`   // prng, ff, zero, ramp (orbit-h / orbit-v are resolved by C10 after building)
	Seed   uint64 `json:"seed"`
	PalN   int    `json:"paln,omitempty"`
	Wrap   bool   `json:"wrap,omitempty"` // hide the concrete type
	// StrideExtra: extra bytes at the end of every row of the parent's pixel buffer (for Y'CbCr types: every plane gets a stride of its own); the
	// image package allows any stride >= the row's byte length
	StrideExtra int `json:"stride_extra,omitempty"`
}

// band zeroes whole rows ("rowbands") or 8-byte column blocks ("colbands") of a prng-filled buffer, or everything
// except a few pixels ("sparse"): sprites with transparent margins, text lines on a transparent background.
func band(pix []uint8, stride int, s Spec) {
	if s.Fill == "edges" {
		// opaque everywhere except the first and last pixel of each row and a few scattered pixels, which keep
		// their random alpha: soft edges of an otherwise opaque picture
		bpp := map[string]int{"NRGBA": 4, "RGBA": 4, "NRGBA64": 8, "RGBA64": 8}[s.Type]
		if bpp == 0 || stride <= 0 {
			return
		}
		w := rect(s.Parent).Dx()
		first, last := s.Rect[0]-s.Parent[0], s.Rect[2]-s.Parent[0]-1 // first and last visible column
		for y := 0; y*stride < len(pix); y++ {
			for x := 0; x < w && y*stride+(x+1)*bpp <= len(pix); x++ {
				// rows alternate: only the last visible pixel translucent / only the first / both / a few scattered
				switch y % 4 {
				case 0:
					if x == last {
						continue
					}
				case 1:
					if x == first {
						continue
					}
				case 2:
					if x == first || x == last {
						continue
					}
				default:
					if (uint64(x*31+y*17)+s.Seed)%23 == 0 {
						continue
					}
				}
				o := y*stride + x*bpp
				if bpp == 4 {
					pix[o+3] = 0xFF
				} else {
					pix[o+6], pix[o+7] = 0xFF, 0xFF
				}
			}
		}
		return
	}
	if s.Fill == "opaque" {
		// a fully opaque picture (what Opaque() reports true for) with the extreme channel values present
		bpp := map[string]int{"NRGBA": 4, "RGBA": 4, "NRGBA64": 8, "RGBA64": 8}[s.Type]
		if bpp == 0 {
			return
		}
		for o := 0; o+bpp <= len(pix); o += bpp {
			if bpp == 4 {
				pix[o+3] = 0xFF
			} else {
				pix[o+6], pix[o+7] = 0xFF, 0xFF
			}
			switch (o / bpp) % 97 {
			case 0:
				for k := 0; k < bpp; k++ {
					pix[o+k] = 0xFF
				}
			case 1:
				for k := 0; k < bpp*3/4; k++ {
					pix[o+k] = 0
				}
			}
		}
		return
	}
	if s.Fill == "widened8" {
		// 16-bit data widened from 8 bits: every sample's low byte is 0x00 (v<<8), 0x01, or its high byte (v*257), and
		// every alpha has the high byte 0xFF with a low byte of 0x00, 0x01, 0xFE, 0xFF or anything - a picture that is
		// opaque to the eye and to a test of the high byte, but not to Opaque()
		bpp := map[string]int{"NRGBA64": 8, "RGBA64": 8}[s.Type]
		if bpp == 0 {
			return
		}
		for o := 0; o+bpp <= len(pix); o += bpp {
			n := uint64(o/bpp)*0x9E3779B97F4A7C15 + s.Seed
			for k := 0; k < 3; k++ {
				switch (n >> (8 * uint(k))) % 4 {
				case 0, 1:
					pix[o+2*k+1] = 0
				case 2:
					pix[o+2*k+1] = 1
				default:
					pix[o+2*k+1] = pix[o+2*k]
				}
			}
			pix[o+6] = 0xFF
			switch (n >> 40) % 6 {
			case 0, 1:
				pix[o+7] = 0
			case 2:
				pix[o+7] = 1
			case 3:
				pix[o+7] = 0xFE
			case 4:
				pix[o+7] = 0xFF
			}
		}
		return
	}
	if s.Fill == "rowpairs" {
		// pixel-doubled art, horizontal bands: every odd row repeats the row above it, rows two apart differ
		if stride <= 0 {
			return
		}
		for y := 1; (y+1)*stride <= len(pix); y += 2 {
			copy(pix[y*stride:(y+1)*stride], pix[(y-1)*stride:y*stride])
		}
		return
	}
	if s.Fill == "flatrows" || s.Fill == "flatcols" || s.Fill == "flat" {
		// every row one colour (stripes, letterboxing, page margins; bands of 1-3 equal rows), every column one
		// colour, or the whole picture one colour: what run-length shortcuts and "same as the last pixel" memos key on
		bpp := map[string]int{"NRGBA": 4, "RGBA": 4, "NRGBA64": 8, "RGBA64": 8, "Gray": 1, "Gray16": 2, "Alpha": 1, "Alpha16": 2, "CMYK": 4, "Paletted": 1}[s.Type]
		if bpp == 0 || stride < bpp {
			return
		}
		k := 1 + int(s.Seed%3)
		rows := len(pix) / stride
		for y := 0; y < rows; y++ {
			row := pix[y*stride : y*stride+stride]
			from := row
			switch s.Fill {
			case "flatrows":
				from = pix[(y/k)*k*stride:]
			case "flat":
				from = pix
			case "flatcols":
				copy(row, pix[:stride])
				continue
			}
			for x := 0; x+bpp <= len(row); x += bpp {
				copy(row[x:x+bpp], from[:bpp])
			}
		}
		return
	}
	if stride <= 0 || (s.Fill != "rowbands" && s.Fill != "colbands" && s.Fill != "sparse") {
		return
	}
	h := func(i int) uint64 {
		x := uint64(i)*0x9E3779B97F4A7C15 + s.Seed
		x ^= x >> 29
		return x * 0xBF58476D1CE4E5B9 >> 33
	}
	for y := 0; y*stride < len(pix); y++ {
		row := pix[y*stride:]
		if len(row) > stride {
			row = row[:stride]
		}
		switch s.Fill {
		case "rowbands":
			if h(y/(1+int(s.Seed%3)))%3 != 0 { // bands of 1-3 rows, two thirds of them cleared
				for i := range row {
					row[i] = 0
				}
			}
		case "colbands":
			for b := 0; b*8 < len(row); b++ {
				if h(b)%2 == 0 {
					for i := b * 8; i < b*8+8 && i < len(row); i++ {
						row[i] = 0
					}
				}
			}
		default:
			for b := 0; b*8 < len(row); b++ {
				if h(y*131+b)%9 != 0 {
					for i := b * 8; i < b*8+8 && i < len(row); i++ {
						row[i] = 0
					}
				}
			}
		}
	}
}

func widen(pix *[]uint8, stride *int, rows, extra int) {
	if extra <= 0 || rows <= 0 {
		return
	}
	*stride += extra
	*pix = make([]uint8, *stride*rows)
}

// widenPlanes gives the planes of a Y'CbCr image strides of their own: luma rows extra bytes longer, chroma rows
// extra/2+1 bytes longer (so that even 4:4:4 planes differ in stride), alpha rows extra+3 bytes longer - planes
// allocated separately, as video decoders and aligned allocators hand them over.
func widenPlanes(m *image.YCbCr, a *image.NYCbCrA, extra int) {
	if extra <= 0 || m.YStride <= 0 || m.CStride <= 0 {
		return
	}
	rowsY, rowsC := len(m.Y)/m.YStride, len(m.Cb)/m.CStride
	m.YStride += extra
	m.CStride += extra/2 + 1
	m.Y = make([]uint8, rowsY*m.YStride)
	m.Cb = make([]uint8, rowsC*m.CStride)
	m.Cr = make([]uint8, rowsC*m.CStride)
	if a != nil && a.AStride > 0 {
		rowsA := len(a.A) / a.AStride
		a.AStride += extra + 3
		a.A = make([]uint8, rowsA*a.AStride)
	}
}

var Types = []string{"RGBA64", "NRGBA64", "RGBA", "NRGBA", "YCbCr", "NYCbCrA", "Gray", "Gray16", "Alpha", "Alpha16", "CMYK", "Paletted"}

var Ratios = []image.YCbCrSubsampleRatio{image.YCbCrSubsampleRatio444, image.YCbCrSubsampleRatio422, image.YCbCrSubsampleRatio420,
	image.YCbCrSubsampleRatio440, image.YCbCrSubsampleRatio411, image.YCbCrSubsampleRatio410}

func rect(r [4]int) image.Rectangle { return image.Rect(r[0], r[1], r[2], r[3]) }

// Built is an image together with all backing byte slices of its parent.
type Built struct {
	Img  image.Image
	Bufs []*[]byte
	Spec Spec
}

// Wrapper hides the concrete type of an image.  Like many images of a caller's own it is a plain struct value that
// holds a slice, so two of them can not be compared with ==.
type Wrapper struct {
	image.Image
	Notes []string
}

// DrawWrapper hides the concrete type of a draw.Image (an uncomparable struct value as well).
type DrawWrapper struct {
	draw.Image
	Notes []string
}

type filler struct {
	mode string
	s    uint64
	i    int
}

func (f *filler) next() byte {
	f.i++
	switch f.mode {
	case "orbit-h", "orbit-v":
		return byte(f.i*37 + f.i>>8) // start content; C10 overwrites it with orbits of the transform
	case "ff":
		return 0xFF
	case "zero":
		return 0
	case "ramp":
		return byte(f.i*37 + f.i>>8)
	}
	f.s ^= f.s << 13
	f.s ^= f.s >> 7
	f.s ^= f.s << 17
	return byte(f.s >> 32)
}

func (f *filler) fill(b []byte) {
	for i := range b {
		b[i] = f.next()
	}
}

// Build constructs the image.
func Build(s Spec) Built {
	pr := rect(s.Parent)
	vr := rect(s.Rect)
	f := &filler{mode: s.Fill, s: s.Seed*0x9E3779B97F4A7C15 + 0x1234567}
	var parent image.Image
	var bufs []*[]byte
	type subber interface {
		SubImage(image.Rectangle) image.Image
	}
	switch s.Type {
	case "RGBA64":
		m := image.NewRGBA64(pr)
		widen(&m.Pix, &m.Stride, pr.Dy(), s.StrideExtra)
		f.fill(m.Pix)
		band(m.Pix, m.Stride, s)
		parent, bufs = m, []*[]byte{&m.Pix}
	case "NRGBA64":
		m := image.NewNRGBA64(pr)
		widen(&m.Pix, &m.Stride, pr.Dy(), s.StrideExtra)
		f.fill(m.Pix)
		band(m.Pix, m.Stride, s)
		parent, bufs = m, []*[]byte{&m.Pix}
	case "RGBA":
		m := image.NewRGBA(pr)
		widen(&m.Pix, &m.Stride, pr.Dy(), s.StrideExtra)
		f.fill(m.Pix)
		band(m.Pix, m.Stride, s)
		parent, bufs = m, []*[]byte{&m.Pix}
	case "NRGBA":
		m := image.NewNRGBA(pr)
		widen(&m.Pix, &m.Stride, pr.Dy(), s.StrideExtra)
		f.fill(m.Pix)
		band(m.Pix, m.Stride, s)
		parent, bufs = m, []*[]byte{&m.Pix}
	case "Gray":
		m := image.NewGray(pr)
		widen(&m.Pix, &m.Stride, pr.Dy(), s.StrideExtra)
		f.fill(m.Pix)
		band(m.Pix, m.Stride, s)
		parent, bufs = m, []*[]byte{&m.Pix}
	case "Gray16":
		m := image.NewGray16(pr)
		widen(&m.Pix, &m.Stride, pr.Dy(), s.StrideExtra)
		f.fill(m.Pix)
		band(m.Pix, m.Stride, s)
		parent, bufs = m, []*[]byte{&m.Pix}
	case "Alpha":
		m := image.NewAlpha(pr)
		widen(&m.Pix, &m.Stride, pr.Dy(), s.StrideExtra)
		f.fill(m.Pix)
		band(m.Pix, m.Stride, s)
		parent, bufs = m, []*[]byte{&m.Pix}
	case "Alpha16":
		m := image.NewAlpha16(pr)
		widen(&m.Pix, &m.Stride, pr.Dy(), s.StrideExtra)
		f.fill(m.Pix)
		band(m.Pix, m.Stride, s)
		parent, bufs = m, []*[]byte{&m.Pix}
	case "CMYK":
		m := image.NewCMYK(pr)
		widen(&m.Pix, &m.Stride, pr.Dy(), s.StrideExtra)
		f.fill(m.Pix)
		band(m.Pix, m.Stride, s)
		parent, bufs = m, []*[]byte{&m.Pix}
	case "Paletted":
		n := s.PalN
		if n < 1 {
			n = 1
		}
		pal := make(color.Palette, n)
		for i := range pal {
			switch i % 7 {
			case 3:
				pal[i] = color.CMYK{f.next(), f.next(), f.next(), f.next()}
			case 4:
				pal[i] = color.NYCbCrA{YCbCr: color.YCbCr{Y: f.next(), Cb: f.next(), Cr: f.next()}, A: f.next()}
			case 5:
				a := uint16(f.next())<<8 | uint16(f.next())
				pal[i] = color.NRGBA64{uint16(f.next()) << 8, uint16(f.next())<<8 | 0x80, uint16(f.next()), a}
			case 6:
				pal[i] = color.Alpha16{uint16(f.next())<<8 | uint16(f.next())}
			case 0:
				pal[i] = color.NRGBA{f.next(), f.next(), f.next(), f.next()}
			case 1:
				pal[i] = color.RGBA64{uint16(f.next()) << 4, uint16(f.next()) << 4, uint16(f.next()) << 4, 0xFFFF}
			default:
				pal[i] = color.Gray16{uint16(f.next())<<8 | uint16(f.next())}
			}
		}
		m := image.NewPaletted(pr, pal)
		widen(&m.Pix, &m.Stride, pr.Dy(), s.StrideExtra)
		f.fill(m.Pix)
		band(m.Pix, m.Stride, s)
		if n < 256 {
			for i := range m.Pix {
				m.Pix[i] %= uint8(n)
			}
		}
		parent, bufs = m, []*[]byte{&m.Pix}
	case "YCbCr":
		m := image.NewYCbCr(pr, Ratios[s.Ratio%len(Ratios)])
		widenPlanes(m, nil, s.StrideExtra)
		f.fill(m.Y)
		f.fill(m.Cb)
		f.fill(m.Cr)
		parent, bufs = m, []*[]byte{&m.Y, &m.Cb, &m.Cr}
	case "NYCbCrA":
		m := image.NewNYCbCrA(pr, Ratios[s.Ratio%len(Ratios)])
		widenPlanes(&m.YCbCr, m, s.StrideExtra)
		f.fill(m.Y)
		f.fill(m.Cb)
		f.fill(m.Cr)
		f.fill(m.A)
		parent, bufs = m, []*[]byte{&m.Y, &m.Cb, &m.Cr, &m.A}
	default:
		panic("img: unknown type " + s.Type)
	}
	out := parent
	if vr != pr {
		out = parent.(subber).SubImage(vr)
	}
	if s.Wrap {
		if d, ok := out.(draw.Image); ok {
			out = DrawWrapper{Image: d}
		} else {
			out = Wrapper{Image: out}
		}
	}
	return Built{Img: out, Bufs: bufs, Spec: s}
}

// Snapshot copies all backing buffers.
func (b Built) Snapshot() [][]byte {
	out := make([][]byte, len(b.Bufs))
	for i, p := range b.Bufs {
		out[i] = append([]byte(nil), (*p)...)
	}
	return out
}

// Unwrap returns the concrete image beneath a wrapper.
func Unwrap(m image.Image) image.Image {
	switch w := m.(type) {
	case Wrapper:
		return w.Image
	case DrawWrapper:
		return w.Image
	}
	return m
}

// GenOpts restricts the generator.
type GenOpts struct {
	Types      []string
	MaxDim     int
	AllowWrap  bool
	NonNegOnly bool // force non-negative coordinates for every type
	Orbit      bool // also draw the orbit fills (meaningful to C10 only)
	TallRows   int  // when > 0, a quarter of the images have between MaxDim+1 and TallRows rows
	Wide       int  // when > 0, a tenth of the images are banners: 1..3 rows of 71..Wide pixels (log-uniform, power-of-two neighbours favoured)
}

// Gen draws a Spec.
func Gen(t *rapid.T, label string, o GenOpts) Spec {
	types := o.Types
	if types == nil {
		types = Types
	}
	maxDim := o.MaxDim
	if maxDim == 0 {
		maxDim = 9
	}
	s := Spec{Type: rapid.SampledFrom(types).Draw(t, label+"type")}
	ycc := s.Type == "YCbCr" || s.Type == "NYCbCrA"
	if ycc {
		s.Ratio = rapid.IntRange(0, len(Ratios)-1).Draw(t, label+"ratio")
	}
	if s.Type == "Paletted" {
		s.PalN = rapid.SampledFrom([]int{1, 2, 3, 16, 255, 256, 257, 300, 1000}).Draw(t, label+"paln")
	}
	w := rapid.IntRange(0, maxDim).Draw(t, label+"w")
	if o.TallRows > 0 && rapid.IntRange(0, 7).Draw(t, label+"wide") == 0 {
		// occasionally wide rows: powers of two and their neighbours, widths beyond one cache line of 16-bit pixels
		w = rapid.SampledFrom([]int{15, 16, 17, 31, 32, 33, 63, 64, 65, 70}).Draw(t, label+"wwide")
	}
	h := rapid.IntRange(0, maxDim).Draw(t, label+"h")
	if o.TallRows > 0 && rapid.IntRange(0, 3).Draw(t, label+"tall") == 0 {
		// more rows than the largest parallelism, so that every worker owns at least one row
		h = rapid.IntRange(maxDim+1, o.TallRows).Draw(t, label+"htall")
	}
	banner := false
	if o.Wide > 71 && rapid.IntRange(0, 9).Draw(t, label+"banner") == 0 {
		banner = true
		bits := 7
		for 1<<uint(bits+1) <= o.Wide {
			bits++
		}
		k := rapid.IntRange(7, bits).Draw(t, label+"wbits")
		switch rapid.IntRange(0, 2).Draw(t, label+"wkind") {
		case 0:
			w = 1<<uint(k) + rapid.IntRange(-1, 1).Draw(t, label+"wd")
		default:
			hi := 1<<uint(k+1) - 1
			if hi > o.Wide {
				hi = o.Wide
			}
			w = rapid.IntRange(1<<uint(k), hi).Draw(t, label+"wbanner")
		}
		if w > o.Wide {
			w = o.Wide
		}
		h = rapid.IntRange(1, 3).Draw(t, label+"hbanner")
	}
	lo := -6
	if ycc || o.NonNegOnly {
		lo = 0
	}
	x0 := rapid.IntRange(lo, 6).Draw(t, label+"x0")
	if banner && rapid.Bool().Draw(t, label+"farx") {
		x0 = rapid.IntRange(7, 300).Draw(t, label+"x0far")
	}
	y0 := rapid.IntRange(lo, 6).Draw(t, label+"y0")
	if rapid.IntRange(0, 11).Draw(t, label+"far") == 0 {
		far := rapid.SampledFrom([]int{1 << 20, 1000003, 1<<31 - 700, 1 << 33}).Draw(t, label+"farorigin")
		if lo < 0 && rapid.Bool().Draw(t, label+"farneg") {
			far = -far
		}
		if rapid.Bool().Draw(t, label+"farx") {
			x0 += far
		} else {
			y0 += far
		}
	}
	s.Rect = [4]int{x0, y0, x0 + w, y0 + h}
	s.Parent = s.Rect
	if w > 0 && h > 0 && rapid.Bool().Draw(t, label+"sub") {
		ml := rapid.IntRange(0, 3).Draw(t, label+"ml")
		mt := rapid.IntRange(0, 3).Draw(t, label+"mt")
		mr := rapid.IntRange(0, 3).Draw(t, label+"mr")
		mb := rapid.IntRange(0, 3).Draw(t, label+"mb")
		if lo == 0 {
			if ml > x0 {
				ml = x0
			}
			if mt > y0 {
				mt = y0
			}
		}
		s.Parent = [4]int{x0 - ml, y0 - mt, x0 + w + mr, y0 + h + mb}
	}
	if rapid.IntRange(0, 5).Draw(t, label+"widestride") == 0 {
		s.StrideExtra = rapid.SampledFrom([]int{1, 2, 3, 4, 5, 8, 13, 64}).Draw(t, label+"strideextra")
	}
	fills := []string{"prng", "prng", "prng", "ff", "zero", "ramp", "rowbands", "colbands", "sparse", "edges", "flatrows", "flatrows", "flatcols", "flat", "opaque", "rowpairs", "widened8"}
	if o.Orbit {
		fills = append(fills, "orbit-h", "orbit-v")
	}
	s.Fill = rapid.SampledFrom(fills).Draw(t, label+"fill")
	s.Seed = rapid.Uint64().Draw(t, label+"seed")
	if o.AllowWrap {
		s.Wrap = rapid.IntRange(0, 4).Draw(t, label+"wrap") == 0
	}
	return s
}

// IsSub reports whether the spec describes a sub-image.
func (s Spec) IsSub() bool { return s.Parent != s.Rect }
