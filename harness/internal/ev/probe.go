package ev

import (
	"bufio"
	"bytes"
	"fmt"
	"os"
	"os/exec"
	"strings"
)

// Order probes: small self-checking calls ("probes") that a property package registers, and that are
// executed in a GIVEN ORDER IN A FRESH PROCESS.  Lazily initialised state (tables, matrices, caches) can make
// a function's result depend on which other function was called first in the process; inside one long-lived
// test process only a single order is ever seen.  The parent re-executes its own test binary once per order.

var probes = map[string]func() string{}
var probeNames []string

// RegisterProbe adds a probe; f returns "" when the value is right, else a message.
func RegisterProbe(name string, f func() string) {
	probes[name] = f
	probeNames = append(probeNames, name)
}

// ProbeNames returns the registered names in registration order.
func ProbeNames() []string { return append([]string(nil), probeNames...) }

const probeEnv = "VERIF_PROBE_ORDER"

// probeEnvExtra: semicolon-separated NAME=value pairs added to the environment of the probe child (runtime
// settings a deployment may impose: a memory limit, a GC percentage, a single processor ...).  Being a
// VERIF_PROBE_ variable it is recorded in a failure and applied again by its replay.
const probeEnvExtra = "VERIF_PROBE_ENV"

// EnvPresets are the process environments every probe set is also run under.
var EnvPresets = []string{"GOMEMLIMIT=32MiB", "GOMEMLIMIT=8MiB;GOGC=10", "GOGC=off", "GOMAXPROCS=1", "GOMAXPROCS=61", "GODEBUG=madvdontneed=1;GOGC=1"}

// probeChild runs in the re-executed process.
func probeChild() {
	order := strings.Split(os.Getenv(probeEnv), ",")
	for _, name := range order {
		f := probes[name]
		if f == nil {
			fmt.Printf("PROBE-UNKNOWN %s\n", name)
			continue
		}
		msg := ""
		if p, m := Guard(func() { msg = f() }); p {
			msg = "panic: " + oneLine(m, 300)
		}
		if msg != "" {
			fmt.Printf("PROBE-FAIL %s\t%s\n", name, oneLine(msg, 500))
		}
	}
	fmt.Println("PROBE-DONE")
	os.Exit(0)
}

// ProbeFailure is one failing probe in one order.
type ProbeFailure struct {
	Order []string          `json:"order"`
	Probe string            `json:"probe"`
	What  string            `json:"what"`
	Env   map[string]string `json:"env,omitempty"` // VERIF_PROBE_* variables in force (e.g. GOMAXPROCS for the child)
}

func probeEnvVars() map[string]string {
	m := map[string]string{}
	for _, kv := range os.Environ() {
		if strings.HasPrefix(kv, "VERIF_PROBE_") && !strings.HasPrefix(kv, probeEnv+"=") {
			if i := strings.IndexByte(kv, '='); i > 0 {
				m[kv[:i]] = kv[i+1:]
			}
		}
	}
	return m
}

// ReplayOrder handles a replay document produced by an order probe; it reports whether the document was one.
func ReplayOrder(t TB) bool {
	if ReplayCheck() != "order" {
		return false
	}
	var f ProbeFailure
	if err := ReplayCase(&f); err != nil {
		t.Fatalf("bad replay: %v", err)
	}
	for k, v := range f.Env {
		os.Setenv(k, v)
	}
	fails, err := RunProbeOrder(f.Order)
	if err != nil {
		t.Fatalf("%v", err)
	}
	for _, x := range fails {
		Violation("order", "first-use-order/"+x.Probe, x.What, x)
	}
	if len(fails) == 0 {
		fmt.Println("REPLAY order probe passed:", strings.Join(f.Order, ","))
	} else {
		t.Fatalf("order probe fails again")
	}
	return true
}

// RunProbeOrder executes the probes in the given order in a fresh process of this test binary.
func RunProbeOrder(order []string) (fails []ProbeFailure, err error) {
	cmd := exec.Command(os.Args[0], "-test.run=^$")
	cmd.Env = append(os.Environ(), probeEnv+"="+strings.Join(order, ","))
	if v := os.Getenv(probeEnvExtra); v != "" {
		cmd.Env = append(cmd.Env, strings.Split(v, ";")...)
	}
	var out bytes.Buffer
	cmd.Stdout, cmd.Stderr = &out, &out
	runErr := cmd.Run()
	done := false
	sc := bufio.NewScanner(&out)
	sc.Buffer(make([]byte, 1<<20), 1<<20)
	for sc.Scan() {
		line := sc.Text()
		switch {
		case strings.HasPrefix(line, "PROBE-FAIL "):
			parts := strings.SplitN(strings.TrimPrefix(line, "PROBE-FAIL "), "\t", 2)
			what := ""
			if len(parts) > 1 {
				what = parts[1]
			}
			fails = append(fails, ProbeFailure{Order: order, Probe: parts[0], What: what, Env: probeEnvVars()})
		case line == "PROBE-DONE":
			done = true
		}
	}
	if !done {
		return fails, fmt.Errorf("probe child did not finish (%v): %s", runErr, oneLine(out.String(), 600))
	}
	return fails, nil
}

// ProbeOrders generates n seeded permutations of the registered probes (plus the registration order and its
// reverse) and runs each in a fresh process; violations are recorded under check "order".
// firstEachOnce: the first ProbeOrders call of a run also tries every probe as the process's first action
var firstEachOnce = true

func ProbeOrders(n int) {
	all := ProbeNames()
	// probes named "soak:..." are long-running: they are left out of the permutations and each runs once, as the
	// first action of its own fresh process, followed by every ordinary probe
	var names, soaks []string
	for _, s := range all {
		if strings.HasPrefix(s, "soak:") {
			soaks = append(soaks, s)
		} else {
			names = append(names, s)
		}
	}
	if len(names) == 0 {
		return
	}
	orders := [][]string{names}
	rev := make([]string, len(names))
	for i, s := range names {
		rev[len(names)-1-i] = s
	}
	orders = append(orders, rev)
	x := Seed()*6364136223846793005 + 1442695040888963407
	for k := 0; k < n; k++ {
		p := append([]string(nil), names...)
		for i := len(p) - 1; i > 0; i-- {
			x = x*6364136223846793005 + 1442695040888963407
			j := int((x >> 33) % uint64(i+1))
			p[i], p[j] = p[j], p[i]
		}
		orders = append(orders, p)
	}
	// every probe gets to be the first thing the process does, once (first-use paths keyed on the first argument)
	if firstEachOnce {
		for i := range names {
			o := append([]string{names[i]}, names[:i]...)
			orders = append(orders, append(o, names[i+1:]...))
		}
		for _, sk := range soaks {
			orders = append(orders, append([]string{sk}, names...))
		}
	}
	nPlain := len(orders)
	if firstEachOnce {
		// ... and the registration order and its reverse under each environment preset
		for range EnvPresets {
			orders = append(orders, names, rev)
		}
		firstEachOnce = false
	}
	defer os.Unsetenv(probeEnvExtra)
	for oi, o := range orders {
		if oi >= nPlain {
			os.Setenv(probeEnvExtra, EnvPresets[(oi-nPlain)/2])
		}
		Eval(int64(len(o)))
		NT(Hash("probe-order", strings.Join(o, ",")))
		fails, err := RunProbeOrder(o)
		if err != nil {
			Infra("order probe: %v", err)
			return
		}
		for _, f := range fails {
			Violation("order", "first-use-order/"+f.Probe, fmt.Sprintf("in a fresh process that calls %s in this order, %s fails: %s", strings.Join(f.Order, " → "), f.Probe, f.What), f)
		}
		if len(fails) > 0 {
			return
		}
	}
	Class("fresh-process-call-orders", int64(len(orders)))
}
