package ev

import "flag"

func flagSet(name, value string) error {
	if flag.Lookup(name) == nil {
		return nil
	}
	return flag.Set(name, value)
}

func fuzzMode() bool {
	if f := flag.Lookup("test.fuzz"); f != nil && f.Value.String() != "" {
		return true
	}
	if f := flag.Lookup("test.fuzzworker"); f != nil && f.Value.String() == "true" {
		return true
	}
	return false
}
