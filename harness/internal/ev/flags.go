package ev

import (
	"flag"
	"os"
	"strings"
)

func flagSet(name, value string) error {
	if flag.Lookup(name) == nil {
		return nil
	}
	return flag.Set(name, value)
}

// fuzzMode reports whether this process is the coordinator or a worker of native fuzzing.  TestMain runs
// before the testing flags are parsed, so the command line is inspected as well as the flag set.
func fuzzMode() bool {
	if f := flag.Lookup("test.fuzz"); f != nil && f.Value.String() != "" {
		return true
	}
	if f := flag.Lookup("test.fuzzworker"); f != nil && f.Value.String() == "true" {
		return true
	}
	for _, a := range os.Args[1:] {
		a = strings.TrimLeft(a, "-")
		if v, ok := strings.CutPrefix(a, "test.fuzz="); ok && v != "" {
			return true
		}
		if a == "test.fuzzworker" || a == "test.fuzzworker=true" {
			return true
		}
	}
	return false
}
