package ev

import "flag"

func flagSet(name, value string) error {
	if flag.Lookup(name) == nil {
		return nil
	}
	return flag.Set(name, value)
}
