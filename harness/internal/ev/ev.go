// Package ev is the evidence / violation / known-finding bookkeeping shared by
// every property package.  One process = one property = one run.
package ev

import (
	"bufio"
	"bytes"
	"encoding/json"
	"fmt"
	"hash/fnv"
	"os"
	"path/filepath"
	"regexp"
	"runtime/debug"
	"sort"
	"strconv"
	"strings"
	"sync"
	"sync/atomic"
	"testing"
	"time"
)

// Root is the /verif directory (overridable for tests of the harness itself).
func Root() string {
	if r := os.Getenv("VERIF_ROOT"); r != "" {
		return r
	}
	return "/verif"
}

type violation struct {
	Key    string `json:"key"`
	What   string `json:"what"`
	Replay string `json:"replay"`
}

type knownEntry struct {
	Status   string `json:"status"`
	Property string `json:"property"`
	Key      string `json:"key,omitempty"`
	Commit   string `json:"commit,omitempty"`
	What     string `json:"what"`
}

type state struct {
	mu        sync.Mutex
	prop      string
	level     string
	tier      string
	seed      int64
	start     time.Time
	evals     int64
	ntExtra   int64
	distinct  map[uint64]struct{}
	classes   map[string]int64
	samples   []any
	sampleCap int
	extra     map[string]any
	assume    []string
	rule      string
	viol      map[string]violation // by key
	violOrder []string
	known     map[string]knownEntry // open entries of this property, by key
	knownHit  map[string]int64
	replayDoc map[string]any // when replaying
	fuzz      bool
	infra     []string
}

var st = &state{
	distinct:  map[uint64]struct{}{},
	classes:   map[string]int64{},
	extra:     map[string]any{},
	viol:      map[string]violation{},
	known:     map[string]knownEntry{},
	knownHit:  map[string]int64{},
	sampleCap: 12,
}

// Tier returns "quick" or "thorough".
func Tier() string { return st.tier }

// Thorough reports whether the thorough tier was requested.
func Thorough() bool { return st.tier == "thorough" }

// Pick returns q in the quick tier and th in the thorough tier.
func Pick(q, th int) int {
	if Thorough() {
		return th
	}
	return q
}

// Seed returns the non-zero run seed.
func Seed() uint64 { return uint64(st.seed) }

// Replaying returns the decoded replay document when the run is a replay.
func Replaying() map[string]any { return st.replayDoc }

// ReplayCase unmarshals the "case" member of the replay document into v.
func ReplayCase(v any) error {
	b, err := json.Marshal(st.replayDoc["case"])
	if err != nil {
		return err
	}
	return json.Unmarshal(b, v)
}

// ReplayCheck returns the "check" member of the replay document.
func ReplayCheck() string {
	s, _ := st.replayDoc["check"].(string)
	return s
}

func envInt(name string, def int64) int64 {
	if v := os.Getenv(name); v != "" {
		if n, err := strconv.ParseInt(v, 10, 64); err == nil {
			return n
		}
	}
	return def
}

// Main is called from TestMain of a property package.
func Main(m *testing.M, prop, level string) {
	if os.Getenv(probeEnv) != "" {
		probeChild()
	}
	st.prop = prop
	st.level = level
	st.tier = os.Getenv("VERIF_TIER")
	if st.tier != "thorough" {
		st.tier = "quick"
	}
	st.seed = envInt("VERIF_SEED", 1)
	if st.seed == 0 {
		st.seed = 0x5eed5eed // rapid treats 0 as "random": remap to a fixed constant
	}
	if st.seed < 0 {
		st.seed = -st.seed
	}
	st.start = time.Now()
	loadKnown()
	if fuzzMode() {
		// native fuzzing (coordinator or worker process): no evidence/result files from here; a failing
		// fuzz target writes its replay file itself through Violation and then fails the test
		st.fuzz = true
		os.Exit(m.Run())
	}
	if p := os.Getenv("VERIF_REPLAY"); p != "" {
		b, err := os.ReadFile(p)
		if err != nil {
			fmt.Fprintf(os.Stderr, "cannot read replay file: %v\n", err)
			os.Exit(2)
		}
		doc := map[string]any{}
		if err := json.Unmarshal(b, &doc); err != nil {
			fmt.Fprintf(os.Stderr, "cannot parse replay file: %v\n", err)
			os.Exit(2)
		}
		st.replayDoc = doc
	}
	code := m.Run()
	finish(code)
}

func loadKnown() {
	f, err := os.Open(filepath.Join(Root(), "known_findings.jsonl"))
	if err != nil {
		return
	}
	defer f.Close()
	sc := bufio.NewScanner(f)
	sc.Buffer(make([]byte, 1<<20), 1<<20)
	for sc.Scan() {
		line := strings.TrimSpace(sc.Text())
		if line == "" || strings.HasPrefix(line, "#") {
			continue
		}
		var e knownEntry
		if json.Unmarshal([]byte(line), &e) != nil {
			continue
		}
		if e.Status == "open" && e.Property == st.prop && e.Key != "" {
			st.known[e.Key] = e
		}
	}
}

// Known reports whether key is listed as an open known finding for this
// property.  Generators use it to exclude (and count) the region.
func Known(key string) bool {
	_, ok := st.known[key]
	return ok
}

// Eval adds n to the number of evaluations.
func Eval(n int64) { atomic.AddInt64(&st.evals, n) }

// NTAdd counts n cases that are non-trivial and distinct by construction
// (enumerations).
func NTAdd(n int64) { atomic.AddInt64(&st.ntExtra, n) }

// Hash is a convenience FNV-1a over the textual form of the parts.
func Hash(parts ...any) uint64 {
	h := fnv.New64a()
	for _, p := range parts {
		switch v := p.(type) {
		case []byte:
			h.Write(v)
		case string:
			h.Write([]byte(v))
		default:
			fmt.Fprintf(h, "%v", v)
		}
		h.Write([]byte{0})
	}
	return h.Sum64()
}

// NT records one non-trivial case identified by its hash; duplicates are
// counted once.
func NT(hash uint64) {
	st.mu.Lock()
	st.distinct[hash] = struct{}{}
	st.mu.Unlock()
}

// Class adds n to a histogram class.
func Class(name string, n int64) {
	st.mu.Lock()
	st.classes[name] += n
	st.mu.Unlock()
}

// Sample keeps v as one of the written-out sample cases (bounded).
func Sample(v any) {
	st.mu.Lock()
	if len(st.samples) < st.sampleCap {
		st.samples = append(st.samples, v)
	}
	st.mu.Unlock()
}

// SampleN reports how many samples are stored (so callers can stop building them).
func SampleN() int {
	st.mu.Lock()
	defer st.mu.Unlock()
	return len(st.samples)
}

// Set stores an extra coverage key.
func Set(key string, v any) {
	st.mu.Lock()
	st.extra[key] = v
	st.mu.Unlock()
}

// Rule sets the coverage rule text.
func Rule(s string) { st.mu.Lock(); st.rule = s; st.mu.Unlock() }

// Assume records an assumption.
func Assume(s string) {
	st.mu.Lock()
	for _, a := range st.assume {
		if a == s {
			st.mu.Unlock()
			return
		}
	}
	st.assume = append(st.assume, s)
	st.mu.Unlock()
}

// Infra records an infrastructure problem (makes the run inconclusive).
func Infra(format string, args ...any) {
	st.mu.Lock()
	st.infra = append(st.infra, fmt.Sprintf(format, args...))
	st.mu.Unlock()
}

var keyRe = regexp.MustCompile(`[^A-Za-z0-9_.-]+`)

// Violation records a failing case.  key is the root-cause key used to match
// known findings; check names the sub-check (used by replay dispatch); c is the
// JSON-serialisable case.  It returns true when the violation is a listed open
// finding (the caller should then carry on instead of failing).
func Violation(check, key, what string, c any) (known bool) {
	st.mu.Lock()
	defer st.mu.Unlock()
	if _, ok := st.known[key]; ok {
		st.knownHit[key]++
		return true
	}
	dir := filepath.Join(Root(), "replays", st.prop)
	_ = os.MkdirAll(dir, 0o755)
	name := keyRe.ReplaceAllString(check+"-"+key, "_")
	if len(name) > 120 {
		name = name[:120]
	}
	path := filepath.Join(dir, name+".json")
	doc := map[string]any{"property": st.prop, "check": check, "key": key, "what": what, "case": c,
		"tier": st.tier, "seed": st.seed}
	b, err := json.MarshalIndent(doc, "", " ")
	if err != nil {
		b, _ = json.Marshal(map[string]any{"property": st.prop, "check": check, "key": key, "what": what,
			"case": fmt.Sprintf("%+v", c)})
	}
	_ = os.WriteFile(path, b, 0o644)
	if _, seen := st.viol[key]; !seen {
		st.violOrder = append(st.violOrder, key)
	}
	st.viol[key] = violation{Key: key, What: what, Replay: path}
	return false
}

// TB is the subset of testing.TB / *rapid.T used by Fail.
type TB interface {
	Fatalf(format string, args ...any)
}

// Fail records a violation and fails the (rapid or plain) test unless the key
// is an open known finding.  Returns true if the test should continue.
func Fail(t TB, check, key, what string, c any) bool {
	if Violation(check, key, what, c) {
		return true
	}
	t.Fatalf("VIOLATION %s/%s: %s", check, key, what)
	return false
}

// Guard runs f and converts a panic into (panicked, message).
func Guard(f func()) (panicked bool, msg string) {
	defer func() {
		if r := recover(); r != nil {
			panicked = true
			msg = fmt.Sprintf("%v\n%s", r, firstLines(string(debug.Stack()), 24))
		}
	}()
	f()
	return false, ""
}

func firstLines(s string, n int) string {
	lines := strings.Split(s, "\n")
	if len(lines) > n {
		lines = lines[:n]
	}
	return strings.Join(lines, "\n")
}

// Violations returns how many distinct unlisted violations were recorded.
func Violations() int {
	st.mu.Lock()
	defer st.mu.Unlock()
	return len(st.viol)
}

func finish(code int) {
	st.mu.Lock()
	defer st.mu.Unlock()
	wall := time.Since(st.start).Seconds()
	cov := map[string]any{}
	for k, v := range st.extra {
		cov[k] = v
	}
	cov["evaluations"] = st.evals
	cov["distinct_nontrivial"] = int64(len(st.distinct)) + st.ntExtra
	cov["nontrivial_distinct_by_construction"] = st.ntExtra
	cov["nontrivial_distinct_by_hash"] = int64(len(st.distinct))
	if hp := os.Getenv("VERIF_HASHES"); hp != "" {
		// sharded thorough run: dump the hashes so that the driver can count distinct cases across shards
		buf := make([]byte, 0, 8*len(st.distinct))
		for h := range st.distinct {
			buf = append(buf, byte(h), byte(h>>8), byte(h>>16), byte(h>>24), byte(h>>32), byte(h>>40), byte(h>>48), byte(h>>56))
		}
		_ = os.WriteFile(hp, buf, 0o644)
	}
	cov["rule"] = st.rule
	if len(st.samples) == 0 {
		st.samples = []any{}
	}
	cov["samples"] = st.samples
	if len(st.classes) > 0 {
		cov["classes"] = st.classes
	}
	var exKnown int64
	for _, n := range st.knownHit {
		exKnown += n
	}
	cov["excluded_known"] = exKnown
	evd := map[string]any{
		"property_id": st.prop,
		"tier":        st.tier,
		"seed":        st.seed,
		"level":       st.level,
		"coverage":    cov,
		"assumptions": st.assume,
		"wall_s":      wall,
		"violations":  len(st.viol),
	}
	if st.assume == nil {
		evd["assumptions"] = []string{}
	}
	replay := st.replayDoc != nil
	if !replay {
		_ = os.MkdirAll(filepath.Join(Root(), "evidence"), 0o755)
		b, _ := json.MarshalIndent(evd, "", " ")
		evPath := os.Getenv("VERIF_EVIDENCE")
		if evPath == "" {
			evPath = filepath.Join(Root(), "evidence", st.prop+".json")
		}
		_ = os.WriteFile(evPath, append(b, '\n'), 0o644)
	}

	res := map[string]any{"property": st.prop, "test_exit": code, "infra": st.infra}
	var vl []violation
	for _, k := range st.violOrder {
		vl = append(vl, st.viol[k])
	}
	res["violations"] = vl
	var kl []map[string]any
	keys := make([]string, 0, len(st.knownHit))
	for k := range st.knownHit {
		keys = append(keys, k)
	}
	sort.Strings(keys)
	for _, k := range keys {
		kl = append(kl, map[string]any{"key": k, "what": st.known[k].What, "hits": st.knownHit[k]})
	}
	res["known"] = kl
	_ = os.MkdirAll(filepath.Join(Root(), "out"), 0o755)
	rb, _ := json.MarshalIndent(res, "", " ")
	resPath := os.Getenv("VERIF_RESULT")
	if resPath == "" {
		resPath = filepath.Join(Root(), "out", st.prop+".result.json")
	}
	_ = os.WriteFile(resPath, rb, 0o644)

	for _, k := range kl {
		fmt.Printf("KNOWN-FINDING: property=%s %s (%s; %d cases excluded)\n", st.prop, k["key"], k["what"], k["hits"])
	}
	for _, v := range vl {
		fmt.Printf("VIOLATION property=%s replay=%s\n", st.prop, v.Replay)
		fmt.Printf("  key=%s: %s\n", v.Key, oneLine(v.What, 600))
	}
	switch {
	case len(vl) > 0:
		os.Exit(1)
	case code != 0 || len(st.infra) > 0:
		for _, s := range st.infra {
			fmt.Printf("INCONCLUSIVE property=%s %s\n", st.prop, s)
		}
		os.Exit(2)
	default:
		os.Exit(0)
	}
}

func oneLine(s string, n int) string {
	s = strings.ReplaceAll(s, "\n", " | ")
	if len(s) > n {
		s = s[:n] + "…"
	}
	return s
}

// Fuzzing reports whether the process is a native-fuzzing coordinator or worker.
func Fuzzing() bool { return st.fuzz }

// RapidChecks sets the number of cases the next rapid.Check calls will run.
func RapidChecks(n int) {
	_ = flagSet("rapid.checks", strconv.Itoa(n))
}

// RapidSeed (re)sets rapid's seed to the run seed plus an offset, so that
// several rapid.Check calls in one run do not replay the same random stream.
func RapidSeed(offset uint64) {
	s := Seed()*1000003 + offset
	if s == 0 {
		s = 1
	}
	_ = flagSet("rapid.seed", strconv.FormatUint(s, 10))
}

var journalFile *os.File

// Journal records the case about to be executed so that, if the subject code
// kills the whole process (a panic in one of the library's own worker
// goroutines, a fatal runtime error), the driver still has the failing case:
// it becomes the replay file of a "crash" violation.
func Journal(check string, c any) {
	if st.replayDoc != nil || st.fuzz || os.Getenv("VERIF_NO_JOURNAL") != "" { // the variable exists to test the driver's fallback
		return
	}
	if journalFile == nil {
		_ = os.MkdirAll(filepath.Join(Root(), "out"), 0o755)
		f, err := os.Create(filepath.Join(Root(), "out", st.prop+os.Getenv("VERIF_SHARD_SUFFIX")+".current.json"))
		if err != nil {
			return
		}
		journalFile = f
	}
	b, err := json.Marshal(map[string]any{"property": st.prop, "check": check, "key": "crash", "case": c, "tier": st.tier, "seed": st.seed})
	if err != nil {
		return
	}
	_, _ = journalFile.WriteAt(append(b, bytes.Repeat([]byte{' '}, 64)...), 0)
	_ = journalFile.Truncate(int64(len(b)))
}
