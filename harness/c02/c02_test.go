// C02 — encoders clip, are monotone, and are accurate to table resolution.
package c02

import (
	"fmt"
	"image"
	"image/color"
	"math"
	"os"
	"runtime"
	"sort"
	"strconv"
	"sync"
	"testing"

	"github.com/mandykoh/prism/linear"

	"verif/internal/ev"
	"verif/internal/ref"
	"verif/internal/sp"
)

func TestMain(m *testing.M) { ev.Main(m, "C02", "exploration") }

// decode-side probes: a decode may be the very first 16-bit operation; encoding afterwards must work (and v.v.)
func init() {
	for i := range sp.Spaces {
		a := &sp.Spaces[i]
		ev.RegisterProbe(a.Name+".decode-first", func() string {
			c, al := a.FromEncoded(color.RGBA64{R: 65535, G: 0, B: 32768, A: 65535})
			if c.R != 1 || c.G != 0 || al != 1 || !(c.B > 0.1 && c.B < 0.4) {
				return fmt.Sprintf("ColorFromEncodedColor(opaque 65535,0,32768) = %v alpha %v", c, al)
			}
			if o := a.LineariseColor(color.NRGBA{R: 255, G: 255, B: 255, A: 255}); o.R != 65535 || o.A != 65535 {
				return fmt.Sprintf("LineariseColor(white) = %v", o)
			}
			return ""
		})
	}
}

// image-level calls that do nothing - parallelism 0, an empty image - as the first thing a process asks of a space:
// whatever they set up (or use up) serves every later encoder call
func init() {
	for i := range sp.Spaces {
		a := &sp.Spaces[i]
		for _, par := range []int{0, 1} {
			par := par
			ev.RegisterProbe(fmt.Sprintf("%s.image-calls-that-do-nothing-first(par %d)", a.Name, par), func() string {
				ev.Guard(func() {
					empty := image.NewRGBA64(image.Rect(0, 0, 0, 0))
					one := image.NewRGBA64(image.Rect(0, 0, 1, 1))
					if par == 0 {
						a.EncodeImage(one, one, 0)
						a.LineariseImage(one, one, 0)
					}
					a.EncodeImage(empty, empty, par)
					a.LineariseImage(empty, empty, par)
				})
				return ""
			})
		}
	}
}

// order probes (see ev.ProbeOrders): every encoder at a few inputs incl. the clip points, in generated orders,
// each order in a fresh process and under a seeded GOMAXPROCS (the tables are built lazily on first use)
func init() {
	for _, e := range encoders() {
		e := e
		ev.RegisterProbe(e.name, func() string {
			if n := os.Getenv("VERIF_PROBE_PROCS"); n != "" {
				if v, err := strconv.Atoi(n); err == nil && v > 0 {
					runtime.GOMAXPROCS(v)
				}
			}
			for _, b := range []uint32{0, 0x3A83126F, 0x3F000000, 0x3F7FFC00, 0x3F7FFFFF, 0x3F800000, 0x40000000, 0x7F800000, 0xBF800000} {
				if k, w := e.point(b); k != "" {
					return w
				}
			}
			return ""
		})
		// the same encoder met for the first time with a value that needs no table at all (NaN, an infinity, a
		// negative number, zero): whatever the first call skips must still be there for the second
		for _, sp := range []struct {
			name string
			bits uint32
		}{{"NaN", 0x7FC00000}, {"+Inf", 0x7F800000}, {"-1", 0xBF800000}, {"-0", 0x80000000}, {"2", 0x40000000},
			// ... and with an ordinary value: the very first answer of a process is checked like any other
			{"0.5", 0x3F000000}, {"0.001", 0x3A83126F}, {"0.9999", 0x3F7FF972}, {"1e-30", 0x0DA24260}} {
			sp := sp
			ev.RegisterProbe(e.name+" first called with "+sp.name, func() string {
				var pn bool
				var msg string
				func() {
					defer func() {
						if r := recover(); r != nil {
							pn, msg = true, fmt.Sprint(r)
						}
					}()
					if k, w := e.point(sp.bits); k != "" {
						msg = "first call of the process: " + w
					}
				}()
				if pn {
					return fmt.Sprintf("%s(%s) panicked: %s", e.name, sp.name, msg)
				}
				if msg != "" {
					return msg
				}
				for _, b := range []uint32{0x3F000000, 0x3F7FFFFF, 0x3F800000, 0x3A83126F} {
					var k, w string
					func() {
						defer func() {
							if r := recover(); r != nil {
								k, w = "panic", fmt.Sprintf("%s(%g) after a first call with %s panicked: %v", e.name, math.Float32frombits(b), sp.name, r)
							}
						}()
						k, w = e.point(b)
					}()
					if k != "" {
						return w
					}
				}
				return ""
			})
		}
	}
}

type encoder struct {
	name  string
	fn    func(float32) uint32
	max   float64 // 255, 511, 65535
	quant bool    // plain quantiser (no transfer curve)
	space ref.Space
	half  float64 // half a table step
	sweep bool    // gets the full 2^32 sweep in thorough
}

func encoders() []encoder {
	var es []encoder
	for i := range sp.Spaces {
		a := &sp.Spaces[i]
		if a.To8 != nil {
			to8, to16 := a.To8, a.To16
			es = append(es,
				encoder{name: a.Name + ".To8Bit", fn: func(x float32) uint32 { return uint32(to8(x)) }, max: 255, space: a.Ref, half: 1.0 / 1022, sweep: true},
				encoder{name: a.Name + ".To16Bit", fn: func(x float32) uint32 { return uint32(to16(x)) }, max: 65535, space: a.Ref, half: 1.0 / 131070, sweep: true})
		}
		toN, toR, to64, enc := a.ToNRGBA, a.ToRGBA, a.ToRGBA64, a.EncodeColor
		_ = enc
		es = append(es,
			encoder{name: a.Name + ".Color.ToNRGBA", fn: func(x float32) uint32 { return uint32(toN(linear.RGB{R: 0.25, G: x, B: 0.75}, 1).G) }, max: 255, space: a.Ref, half: 1.0 / 1022},
			encoder{name: a.Name + ".Color.ToRGBA", fn: func(x float32) uint32 { return uint32(toR(linear.RGB{R: x, G: 0.5, B: 0.75}, 1).R) }, max: 255, space: a.Ref, half: 1.0 / 1022},
			encoder{name: a.Name + ".Color.ToRGBA64", fn: func(x float32) uint32 { return uint32(to64(linear.RGB{R: 0.25, G: 0.5, B: x}, 1).B) }, max: 65535, space: a.Ref, half: 1.0 / 131070})
	}
	es = append(es,
		encoder{name: "linear.NormalisedTo8Bit", fn: func(x float32) uint32 { return uint32(linear.NormalisedTo8Bit(x)) }, max: 255, quant: true, sweep: true},
		encoder{name: "linear.NormalisedTo9Bit", fn: func(x float32) uint32 { return uint32(linear.NormalisedTo9Bit(x)) }, max: 511, quant: true, sweep: true},
		encoder{name: "linear.NormalisedTo16Bit", fn: func(x float32) uint32 { return uint32(linear.NormalisedTo16Bit(x)) }, max: 65535, quant: true, sweep: true})
	return es
}

func findEnc(name string) *encoder {
	es := encoders()
	for i := range es {
		if es[i].name == name {
			return &es[i]
		}
	}
	return nil
}

// bounds returns the admissible closed interval of results for x in [0,1].
func (e *encoder) bounds(x float64) (lo, hi float64) {
	s := e.max / (1 << 22)
	if e.quant {
		return x*e.max - 0.5 - s, x*e.max + 0.5 + s
	}
	lo = e.max*ref.OETF(e.space, math.Max(0, x-e.half)) - 0.5 - s
	hi = e.max*ref.OETF(e.space, math.Min(1, x+e.half)) + 0.5 + s
	return
}

// Case is one float32 input (as its bit pattern) for one encoder; Bits2 is
// used by the monotonicity relation (x1 < x2 but f(x1) > f(x2)).
type Case struct {
	Fn    string  `json:"fn"`
	Bits  uint32  `json:"bits"`
	X     float64 `json:"x"`
	Bits2 uint32  `json:"bits2,omitempty"`
	X2    float64 `json:"x2,omitempty"`
}

// pointwise checks (b), (d) at one value; returns kind, message.
func (e *encoder) point(bits uint32) (string, string) {
	x := math.Float32frombits(bits)
	got := float64(e.fn(x))
	switch {
	case x != x:
		return "", "" // NaN: only "no panic"
	case x <= 0:
		if got != 0 {
			return "clip-low", fmt.Sprintf("%s(%g) = %v, want 0", e.name, x, got)
		}
	case x >= 1:
		if got != e.max {
			return "clip-high", fmt.Sprintf("%s(%g) = %v, want %v", e.name, x, got, e.max)
		}
	default:
		lo, hi := e.bounds(float64(x))
		if got < lo || got > hi {
			return "interval", fmt.Sprintf("%s(%.9g [bits %#08x]) = %v, admissible [%.4f, %.4f]", e.name, x, bits, got, lo, hi)
		}
	}
	return "", ""
}

func (e *encoder) record(kind, what string, c Case) {
	ev.Violation("encode", e.name+"/"+kind, what, c)
}

// quickPoints builds the quick-tier point set (positive-side bit patterns and specials).
func quickPoints(seed uint64) []uint32 {
	set := map[uint32]struct{}{}
	add := func(b uint32) { set[b] = struct{}{} }
	addAround := func(x float64) {
		b := math.Float32bits(float32(x))
		for d := -2; d <= 2; d++ {
			nb := int64(b) + int64(d)
			if nb >= 0 && nb <= 0x7F800000 {
				add(uint32(nb))
			}
		}
	}
	for _, n := range []int{255, 511, 65535} {
		for i := 0; i <= n; i++ {
			addAround((float64(i) + 0.5) / float64(n))
			addAround((float64(i) - 0.5) / float64(n))
			addAround(float64(i) / float64(n))
		}
	}
	// every exponent with seeded mantissas
	s := seed*0x9E3779B97F4A7C15 + 1
	next := func() uint64 { s ^= s << 13; s ^= s >> 7; s ^= s << 17; return s }
	for exp := uint32(0); exp <= 0x7F; exp++ { // up to [1,2)
		for k := 0; k < 64; k++ {
			add(exp<<23 | uint32(next())&0x7FFFFF)
		}
		// the ends and the middle of every binade (just below / at / just above a power of two)
		for _, m := range []uint32{0, 1, 2, 3, 0x3FFFFF, 0x400000, 0x400001, 0x7FFFFD, 0x7FFFFE, 0x7FFFFF} {
			add(exp<<23 | m)
		}
	}
	// specials
	for _, b := range []uint32{0, 1, 0x007FFFFF, 0x00800000, 0x3F7FFFFF, 0x3F800000, 0x3F800001, 0x40000000, 0x7149F2CA, 0x7F7FFFFF, 0x7F800000,
		0x3B000000 /*1/512*/, 0x3B000001, 0x3AFFFFFF, 0x3B4D2E1C /*0.0031308*/, 0x3D25AEE6 /*0.04045*/} {
		add(b)
		add(b | 0x80000000)
	}
	for _, b := range []uint32{0x7F800001, 0x7FC00000, 0x7FFFFFFF, 0xFF800001, 0xFFC00000, 0xFFFFFFFF, 0x7FA00000, 0xFFA12345} {
		add(b)
	}
	// negatives of a sample
	i := 0
	for b := range set {
		if i%97 == 0 && b&0x80000000 == 0 && b <= 0x7F800000 {
			set[b|0x80000000] = struct{}{}
		}
		i++
	}
	out := make([]uint32, 0, len(set))
	for b := range set {
		out = append(out, b)
	}
	sort.Slice(out, func(i, j int) bool { return out[i] < out[j] })
	return out
}

// numeric order key for non-NaN floats
func ordKey(b uint32) int64 {
	if b&0x80000000 != 0 {
		return -int64(b & 0x7FFFFFFF)
	}
	return int64(b)
}

func runPoints(e *encoder, pts []uint32) {
	type pv struct {
		b uint32
		v uint32
	}
	var ordered []pv
	bad := map[string]bool{}
	p, msg := ev.Guard(func() {
		for _, b := range pts {
			x := math.Float32frombits(b)
			ev.Eval(1)
			if x == x && x > 0 && x < 1 {
				ev.NTAdd(1) // points are a de-duplicated set, so distinct by construction
			}
			if kind, what := e.point(b); kind != "" && !bad[kind] {
				bad[kind] = true
				e.record(kind, what, Case{Fn: e.name, Bits: b, X: float64(x)})
			}
			if x == x {
				ordered = append(ordered, pv{b, e.fn(x)})
			}
		}
	})
	if p {
		e.record("panic", msg, Case{Fn: e.name})
		return
	}
	sort.Slice(ordered, func(i, j int) bool { return ordKey(ordered[i].b) < ordKey(ordered[j].b) })
	for i := 1; i < len(ordered); i++ {
		if ordered[i].v < ordered[i-1].v {
			x1, x2 := math.Float32frombits(ordered[i-1].b), math.Float32frombits(ordered[i].b)
			e.record("monotone", fmt.Sprintf("%s decreases: f(%.9g)=%d > f(%.9g)=%d", e.name, x1, ordered[i-1].v, x2, ordered[i].v),
				Case{Fn: e.name, Bits: ordered[i-1].b, X: float64(x1), Bits2: ordered[i].b, X2: float64(x2)})
			break
		}
	}
}

// denseSweep walks a uniform grid of per16 points per 16-bit table step over (0,1] (offset by a seeded fraction of
// the spacing) and 4096 evenly spaced mantissas in every binade below 1, in increasing order: a decrease anywhere
// between neighbouring grid points is a violation, and every 61st point also gets the interval oracle.  Table-step
// boundaries alone cannot see a seam between two code paths that lies inside a step.
func denseSweep(e *encoder, seed uint64, per16 int) {
	n := 65535 * per16
	off := float64(seed*0x9E3779B97F4A7C15>>11) / (1 << 53)
	var prevB, prevV uint32
	have, done := false, false
	var cnt int64
	visit := func(x float32) {
		if done || !(x > 0) || x > 1 {
			return
		}
		b := math.Float32bits(x)
		if have && b <= prevB {
			return
		}
		v := e.fn(x)
		cnt++
		if have && v < prevV {
			x1 := math.Float32frombits(prevB)
			e.record("monotone", fmt.Sprintf("%s decreases: f(%.9g)=%d > f(%.9g)=%d", e.name, x1, prevV, x, v),
				Case{Fn: e.name, Bits: prevB, X: float64(x1), Bits2: b, X2: float64(x)})
			done = true
			return
		}
		if cnt%61 == 0 {
			if kind, what := e.point(b); kind != "" {
				e.record(kind, what, Case{Fn: e.name, Bits: b, X: float64(x)})
				done = true
				return
			}
		}
		prevB, prevV, have = b, v, true
	}
	p, msg := ev.Guard(func() {
		// binades below the grid's first step
		for exp := uint32(1); exp < 0x6F; exp++ {
			for k := uint32(0); k < 4096; k++ {
				visit(math.Float32frombits(exp<<23 | k<<11 | uint32(off*2048)))
			}
		}
		first := math.Float32frombits(0x6F << 23)
		for i := 0; i <= n; i++ {
			x := float32((float64(i) + off) / float64(n))
			if x < first {
				continue
			}
			visit(x)
		}
	})
	if p {
		e.record("panic", msg, Case{Fn: e.name})
	}
	ev.Eval(cnt)
	ev.NTAdd(cnt)
	ev.Class(e.name+"/dense-grid", cnt)
}

// sweepAll walks every float32 bit pattern for one encoder (thorough tier).
func sweepAll(e *encoder) {
	const chunks = 256
	type res struct {
		first, last   uint32
		firstV, lastV uint32
		kind, what    string
		c             Case
		runs          int64
	}
	results := make([]res, chunks)
	var wg sync.WaitGroup
	sem := make(chan struct{}, 16)
	// positive patterns 0 .. 0x7F800000 inclusive, split evenly
	const top = uint64(0x7F800000)
	for ci := 0; ci < chunks; ci++ {
		wg.Add(1)
		sem <- struct{}{}
		go func(ci int) {
			defer wg.Done()
			defer func() { <-sem }()
			r := &results[ci]
			lo := uint32(top * uint64(ci) / chunks)
			hi := uint32(top*uint64(ci+1)/chunks - 1)
			if ci == chunks-1 {
				hi = uint32(top)
			}
			r.first, r.last = lo, hi
			fail := func(kind, what string, c Case) {
				if r.kind == "" {
					r.kind, r.what, r.c = kind, what, c
				}
			}
			p, msg := ev.Guard(func() {
				prev := e.fn(math.Float32frombits(lo))
				r.firstV = prev
				if k, w := e.point(lo); k != "" {
					fail(k, w, Case{Fn: e.name, Bits: lo, X: float64(math.Float32frombits(lo))})
				}
				for b := uint64(lo) + 1; b <= uint64(hi); b++ {
					v := e.fn(math.Float32frombits(uint32(b)))
					if v != prev {
						r.runs++
						if v < prev {
							x1, x2 := math.Float32frombits(uint32(b-1)), math.Float32frombits(uint32(b))
							fail("monotone", fmt.Sprintf("%s decreases: f(%.9g)=%d > f(%.9g)=%d", e.name, x1, prev, x2, v),
								Case{Fn: e.name, Bits: uint32(b - 1), X: float64(x1), Bits2: uint32(b), X2: float64(x2)})
						}
						// end of the previous run and start of the new one
						if k, w := e.point(uint32(b - 1)); k != "" {
							fail(k, w, Case{Fn: e.name, Bits: uint32(b - 1), X: float64(math.Float32frombits(uint32(b - 1)))})
						}
						if k, w := e.point(uint32(b)); k != "" {
							fail(k, w, Case{Fn: e.name, Bits: uint32(b), X: float64(math.Float32frombits(uint32(b)))})
						}
						prev = v
					}
				}
				r.lastV = prev
				if k, w := e.point(hi); k != "" {
					fail(k, w, Case{Fn: e.name, Bits: hi, X: float64(math.Float32frombits(hi))})
				}
			})
			if p {
				fail("panic", msg, Case{Fn: e.name, Bits: lo})
			}
		}(ci)
	}
	wg.Wait()
	var runs int64
	for ci := range results {
		r := &results[ci]
		runs += r.runs
		if r.kind != "" {
			e.record(r.kind, r.what, r.c)
			break
		}
		if ci > 0 && r.firstV < results[ci-1].lastV {
			e.record("monotone", fmt.Sprintf("%s decreases across %#x", e.name, r.first), Case{Fn: e.name, Bits: results[ci-1].last, Bits2: r.first})
			break
		}
	}
	ev.Eval(int64(top) + 1)
	ev.NTAdd(0x3F800000 - 1) // every pattern with 0 < x < 1
	ev.Class(e.name+"/constant-runs", runs+1)

	// negative patterns (must all give 0) and NaNs (must not panic)
	var mu sync.Mutex
	var negBad *Case
	var negWhat string
	for ci := 0; ci < 64; ci++ {
		wg.Add(1)
		sem <- struct{}{}
		go func(ci int) {
			defer wg.Done()
			defer func() { <-sem }()
			lo := uint64(0x80000000) + uint64(0x7F800001)*uint64(ci)/64
			hi := uint64(0x80000000) + uint64(0x7F800001)*uint64(ci+1)/64
			p, msg := ev.Guard(func() {
				for b := lo; b < hi; b++ {
					if v := e.fn(math.Float32frombits(uint32(b))); v != 0 {
						mu.Lock()
						if negBad == nil {
							negBad = &Case{Fn: e.name, Bits: uint32(b), X: float64(math.Float32frombits(uint32(b)))}
							negWhat = fmt.Sprintf("%s(%g) = %d, want 0", e.name, math.Float32frombits(uint32(b)), v)
						}
						mu.Unlock()
						return
					}
				}
			})
			if p {
				mu.Lock()
				negBad = &Case{Fn: e.name, Bits: uint32(lo)}
				negWhat = "panic: " + msg
				mu.Unlock()
			}
		}(ci)
	}
	wg.Wait()
	if negBad != nil {
		e.record("clip-low", negWhat, *negBad)
	}
	ev.Eval(0x7F800001)
	p, msg := ev.Guard(func() {
		for b := uint64(0x7F800001); b <= 0x7FFFFFFF; b++ {
			e.fn(math.Float32frombits(uint32(b)))
			e.fn(math.Float32frombits(uint32(b) | 0x80000000))
		}
	})
	if p {
		e.record("panic", "NaN input: "+msg, Case{Fn: e.name, Bits: 0x7FC00000})
	}
	ev.Eval(2 * 0x7FFFFF)
}

func TestC02(t *testing.T) {
	es := encoders()
	if ev.Replaying() != nil {
		if ev.ReplayOrder(t) {
			return
		}
		var c Case
		if err := ev.ReplayCase(&c); err != nil {
			t.Fatal(err)
		}
		e := findEnc(c.Fn)
		if e == nil {
			t.Fatalf("unknown encoder %q", c.Fn)
		}
		pts := []uint32{c.Bits}
		if c.Bits2 != 0 {
			pts = append(pts, c.Bits2)
		}
		runPoints(e, pts)
		if ev.Violations() > 0 {
			t.Fail()
		} else {
			fmt.Println("REPLAY case passed:", c)
		}
		return
	}
	ev.Rule("inputs are float32 bit patterns. quick: every table-bucket boundary (i±½)/N and i/N for N=255,511,65535 ± {0,1,2} ulp, 64 seeded mantissas and the ends and middle of every binade below 2, special values (±0, subnormals, curve thresholds, 1±ulp, huge, ±Inf, NaN payloads) and negatives, plus an ordered dense grid (48 points per 16-bit table step, seeded offset; 256 in thorough) checked for monotonicity between neighbours; thorough: additionally every one of the 2^32 bit patterns for the nine direct encoders/quantisers, walked in numeric order with the interval oracle evaluated at both ends of every constant run. non-trivial = distinct (encoder, bit pattern) with 0 < x < 1")
	ev.Set("slack_codes_rel", "max*2^-22")
	ev.Assume("published OETFs transcribed in internal/ref; NaN inputs are only required not to panic")
	for _, procs := range []string{"", "3", "5", "6", "7", "12"} {
		os.Setenv("VERIF_PROBE_PROCS", procs)
		ev.ProbeOrders(ev.Pick(2, 30))
	}
	os.Unsetenv("VERIF_PROBE_PROCS")
	pts := quickPoints(ev.Seed())
	ev.Set("quick_points_per_encoder", len(pts))
	for i := range es {
		runPoints(&es[i], pts)
		ev.Class(es[i].name+"/points", int64(len(pts)))
		denseSweep(&es[i], ev.Seed(), ev.Pick(48, 256))
	}
	// colour-type paths agree with the per-component encoders, channel by channel
	agree(pts)
	// EncodeColor on every opaque 16-bit grey (and a channel-distinct colour)
	encodeColorSweep()
	if ev.Thorough() {
		for i := range es {
			if es[i].sweep {
				sweepAll(&es[i])
			}
		}
		ev.Set("exhaustive", true)
		ev.Set("exhaustive_scope", "all 2^32 float32 bit patterns for srgb/adobergb/prophotorgb To8Bit, To16Bit and linear.NormalisedTo8/9/16Bit")
	}
	e := &es[0]
	for _, b := range []uint32{0x3B4D2E1C, 0x3F000000, 0x3F7FFFFF} {
		x := math.Float32frombits(b)
		lo, hi := e.bounds(float64(x))
		ev.Sample(map[string]any{"fn": e.name, "bits": fmt.Sprintf("%#08x", b), "x": x, "result": e.fn(x), "admissible": []float64{lo, hi}})
	}
	ev.Sample(map[string]any{"fn": "linear.NormalisedTo9Bit", "x": "NaN", "result": linear.NormalisedTo9Bit(float32(math.NaN())), "oracle": "no panic only"})
	if ev.Violations() > 0 {
		t.Fail()
	}
}

func agree(pts []uint32) {
	for i := range sp.Spaces {
		a := &sp.Spaces[i]
		to8, to16 := a.To8, a.To16
		if to8 == nil {
			to8, to16 = sp.Spaces[0].To8, sp.Spaces[0].To16 // Display P3 uses the sRGB curve
		}
		bad := false
		p, msg := ev.Guard(func() {
			n := len(pts)
			for j, b := range pts {
				if bad {
					return
				}
				x := math.Float32frombits(b)
				y := math.Float32frombits(pts[(j*7+13)%n])
				z := math.Float32frombits(pts[(j*31+5)%n])
				c := linear.RGB{R: x, G: y, B: z}
				ev.Eval(3)
				n8 := a.ToNRGBA(c, 1)
				r8 := a.ToRGBA(c, 1)
				r16 := a.ToRGBA64(c, 1)
				w8 := [3]uint8{to8(x), to8(y), to8(z)}
				w16 := [3]uint16{to16(x), to16(y), to16(z)}
				nan := x != x || y != y || z != z
				if nan {
					continue
				}
				if [3]uint8{n8.R, n8.G, n8.B} != w8 || n8.A != 255 || [3]uint8{r8.R, r8.G, r8.B} != w8 || r8.A != 255 ||
					[3]uint16{r16.R, r16.G, r16.B} != w16 || r16.A != 65535 {
					bad = true
					ev.Violation("agree", a.Name+"/color-vs-component", fmt.Sprintf("%s colour (%g,%g,%g) alpha 1: ToNRGBA=%v ToRGBA=%v ToRGBA64=%v, per-component encoders give %v / %v", a.Name, x, y, z, n8, r8, r16, w8, w16),
						map[string]any{"space": a.Name, "bits": []uint32{b, pts[(j*7+13)%n], pts[(j*31+5)%n]}})
				}
			}
		})
		if p {
			ev.Violation("agree", a.Name+"/panic", msg, map[string]any{"space": a.Name})
		}
	}
}

func encodeColorSweep() {
	for i := range sp.Spaces {
		a := &sp.Spaces[i]
		e := encoder{name: a.Name + ".EncodeColor", max: 65535, space: a.Ref, half: 1.0 / 131070}
		bad := false
		prev := uint16(0)
		p, msg := ev.Guard(func() {
			for v := 0; v < 65536 && !bad; v++ {
				g := uint16(v)
				o := a.EncodeColor(rgba64{g, uint16(65535 - v), uint16((v * 7) % 65536), 65535})
				ev.Eval(1)
				ev.NTAdd(1)
				chk := func(in, out uint16, ch string) {
					x := float64(float32(in) / 65535)
					lo, hi := e.bounds(x)
					if in == 0 {
						lo, hi = 0, 0
					}
					if in == 65535 {
						lo, hi = 65535, 65535
					}
					if float64(out) < lo || float64(out) > hi {
						bad = true
						ev.Violation("encode", e.name+"/interval", fmt.Sprintf("%s of opaque linear %s=%d gives %d, admissible [%.3f, %.3f]", e.name, ch, in, out, lo, hi),
							map[string]any{"space": a.Name, "channel": ch, "in": in})
					}
				}
				chk(g, o.R, "R")
				chk(uint16(65535-v), o.G, "G")
				chk(uint16((v*7)%65536), o.B, "B")
				if o.A != 65535 {
					bad = true
					ev.Violation("encode", e.name+"/alpha", fmt.Sprintf("%s: opaque in, alpha %d out", e.name, o.A), map[string]any{"space": a.Name, "in": v})
				}
				if o.R < prev {
					bad = true
					ev.Violation("encode", e.name+"/monotone", fmt.Sprintf("%s decreases at linear code %d", e.name, v), map[string]any{"space": a.Name, "in": v})
				}
				prev = o.R
			}
		})
		if p {
			ev.Violation("encode", e.name+"/panic", msg, map[string]any{"space": a.Name})
		}
	}
}

type rgba64 struct{ r, g, b, a uint16 }

func (c rgba64) RGBA() (r, g, b, a uint32) { return uint32(c.r), uint32(c.g), uint32(c.b), uint32(c.a) }
