// C13 — CIE Lab conversion matches the CIE 1976 definition and round-trips.
package c13

import (
	"fmt"
	"math"
	"sync"
	"testing"

	"github.com/mandykoh/prism/cielab"
	"github.com/mandykoh/prism/ciexyz"
	"pgregory.net/rapid"

	"verif/internal/ev"
	"verif/internal/ref"
)

func TestMain(m *testing.M) { ev.Main(m, "C13", "exploration") }

type Case struct {
	Kind  string     `json:"kind"` // "tolab", "fromlab", "junction", "finite", "neutral"
	V     [3]float32 `json:"v"`    // XYZ or Lab
	White [3]float32 `json:"white"`
	Axis  int        `json:"axis,omitempty"`
	// After > 0: before the case, the library is asked one conversion that lies OUTSIDE the property's domain
	// (non-finite component, white with a zero or NaN component; number After-1 of the list in outside());
	// whatever it answers is ignored.  What such a call leaves behind must not reach the next, ordinary one.
	After int `json:"after,omitempty"`
}

// outside performs conversion number i of a fixed list of out-of-domain requests; panics are swallowed.
func outside(i int) {
	nan, inf := float32(math.NaN()), float32(math.Inf(1))
	type q struct{ c, w ciexyz.Color }
	qs := []q{
		{ciexyz.Color{X: 0.5, Y: 0.4, Z: nan}, ciexyz.D50},
		{ciexyz.Color{X: nan, Y: 0.1, Z: 0.2}, ciexyz.D65},
		{ciexyz.Color{X: 0.3, Y: inf, Z: 0.2}, ciexyz.D50},
		{ciexyz.Color{X: 0.3, Y: 0.2, Z: -inf}, ciexyz.D65},
		{ciexyz.Color{X: 0.2, Y: 0.3, Z: 0.4}, ciexyz.Color{X: 0.9, Y: 1, Z: 0}},
		{ciexyz.Color{X: 0.2, Y: 0.3, Z: 0.4}, ciexyz.Color{X: 0, Y: 1, Z: 1}},
		{ciexyz.Color{X: 0.7, Y: 0.3, Z: 0.4}, ciexyz.Color{X: 1, Y: 0, Z: 1}},
		{ciexyz.Color{X: 0.2, Y: 0.3, Z: 0.4}, ciexyz.Color{X: nan, Y: 1, Z: 1}},
		{ciexyz.Color{X: 0, Y: 0, Z: 0}, ciexyz.Color{}},
		{ciexyz.Color{X: 0.2, Y: 0.3, Z: 0.4}, ciexyz.Color{X: -1, Y: 1, Z: inf}},
	}
	x := qs[((i%len(qs))+len(qs))%len(qs)]
	ev.Guard(func() {
		lab := x.c.ToLAB(x.w)
		ciexyz.ColorFromLAB(lab, x.w)
		ciexyz.ColorFromLAB(cielab.Color{L: nan, A: float32(i), B: inf}, x.w)
	})
}

func col(v [3]float32) ciexyz.Color { return ciexyz.Color{X: v[0], Y: v[1], Z: v[2]} }
func v3(v [3]float32) ref.V3        { return ref.V3{float64(v[0]), float64(v[1]), float64(v[2])} }

func finite(xs ...float32) bool {
	for _, x := range xs {
		if x != x || math.IsInf(float64(x), 0) {
			return false
		}
	}
	return true
}

func check(c Case) (string, string) {
	if c.After > 0 {
		outside(c.After - 1)
	}
	var k, w string
	if pn, msg := ev.Guard(func() { k, w = checkInner(c) }); pn {
		return "panic", msg
	}
	return k, w
}

func checkInner(c Case) (kind, what string) {
	wp := col(c.White)
	W := v3(c.White)
	switch c.Kind {
	case "tolab":
		lab := col(c.V).ToLAB(wp)
		if !finite(lab.L, lab.A, lab.B) {
			return "nonfinite", fmt.Sprintf("ToLAB(%v, white %v) = %v", c.V, c.White, lab)
		}
		want := ref.ToLab(v3(c.V), W)
		got := [3]float64{float64(lab.L), float64(lab.A), float64(lab.B)}
		for i := range got {
			if !(math.Abs(got[i]-want[i]) <= 1e-3) {
				return "definition", fmt.Sprintf("ToLAB(%v, white %v) = %v, CIE 1976 definition gives %v", c.V, c.White, got, want)
			}
		}
		// round trip
		back := ciexyz.ColorFromLAB(lab, wp)
		if !finite(back.X, back.Y, back.Z) {
			return "nonfinite", fmt.Sprintf("ColorFromLAB(ToLAB(%v)) = %v", c.V, back)
		}
		b := [3]float64{float64(back.X), float64(back.Y), float64(back.Z)}
		for i := range b {
			if !(math.Abs(b[i]-float64(c.V[i])) <= 1e-5*math.Max(1, math.Abs(float64(c.V[i])))) {
				return "roundtrip", fmt.Sprintf("XYZ %v (white %v) -> Lab %v -> XYZ %v", c.V, c.White, got, b)
			}
		}
	case "fromlab":
		x := ciexyz.ColorFromLAB(cielab.Color{L: c.V[0], A: c.V[1], B: c.V[2]}, wp)
		if !finite(x.X, x.Y, x.Z) {
			return "nonfinite", fmt.Sprintf("ColorFromLAB(%v, white %v) = %v", c.V, c.White, x)
		}
		want := ref.FromLab(v3(c.V), W)
		got := [3]float64{float64(x.X), float64(x.Y), float64(x.Z)}
		for i := range got {
			if !(math.Abs(got[i]-want[i]) <= 1e-5*math.Max(1, math.Abs(want[i]))) {
				return "inverse", fmt.Sprintf("ColorFromLAB(%v, white %v) = %v, float64 inverse of the definition gives %v", c.V, c.White, got, want)
			}
		}
	case "neutral":
		// V[0] is the multiple t; colour = t*white
		t := c.V[0]
		x := ciexyz.Color{X: t * c.White[0], Y: t * c.White[1], Z: t * c.White[2]}
		lab := x.ToLAB(wp)
		// the product t*w is rounded to float32: a,b may differ from 0 by the effect of one rounding of each ratio
		r := float64(t)
		slope := 1.0
		if r > ref.LabEps {
			slope = 1 / (3 * math.Cbrt(r*r))
		} else {
			slope = ref.LabKappa / 116
		}
		tol := 1e-3 + 500*2*slope*r*6e-8
		if !(math.Abs(float64(lab.A)) <= tol) || !(math.Abs(float64(lab.B)) <= tol) {
			return "neutral", fmt.Sprintf("%g x white %v -> Lab %v: a*, b* should be 0 (tol %.3g)", t, c.White, lab, tol)
		}
		if t == 1 && (math.Abs(float64(lab.L)-100) > 1e-3) {
			return "white", fmt.Sprintf("white %v -> Lab %v, want (100,0,0)", c.White, lab)
		}
	case "scale":
		// Lab depends on the ratios only: scaling colour and white by the same power of two (exact in float32)
		// must not change the result by a single bit.  Axis carries the exponent.
		k := c.Axis
		f := float32(math.Ldexp(1, k))
		base := col(c.V).ToLAB(wp)
		sc := ciexyz.Color{X: c.V[0] * f, Y: c.V[1] * f, Z: c.V[2] * f}.ToLAB(ciexyz.Color{X: c.White[0] * f, Y: c.White[1] * f, Z: c.White[2] * f})
		if base != sc {
			return "scale", fmt.Sprintf("ToLAB(%v, white %v) = %v but with colour and white both scaled by 2^%d it is %v", c.V, c.White, base, k, sc)
		}
		// and back: ColorFromLAB with the scaled white gives the scaled colour
		b1 := ciexyz.ColorFromLAB(base, wp)
		b2 := ciexyz.ColorFromLAB(base, ciexyz.Color{X: c.White[0] * f, Y: c.White[1] * f, Z: c.White[2] * f})
		if b2.X != b1.X*f || b2.Y != b1.Y*f || b2.Z != b1.Z*f {
			return "scale", fmt.Sprintf("ColorFromLAB(%v) with white %v scaled by 2^%d = %v, unscaled result %v", base, c.White, k, b2, b1)
		}
	case "finite":
		lab := col(c.V).ToLAB(wp)
		// the result type is float32: finiteness can only be demanded where the value the definition
		// assigns is itself representable (negative inputs take the linear branch, whose slope of
		// 200*7.787 pushes |b*| past FLT_MAX for |Z| > 2e35)
		want := ref.ToLab(v3(c.V), W)
		if math.Abs(want[0]) > 3e38 || math.Abs(want[1]) > 3e38 || math.Abs(want[2]) > 3e38 {
			return "", ""
		}
		if !finite(lab.L, lab.A, lab.B) {
			return "nonfinite", fmt.Sprintf("ToLAB(%v, white %v) = %v", c.V, c.White, lab)
		}
	case "junction":
		// 4000 consecutive float32 values centred on wp*eps on one axis: definition, monotone L, continuity
		ax := c.Axis
		centre := float32(float64(c.White[ax]) * ref.LabEps)
		b0 := math.Float32bits(centre) - 2000
		var prev cielab.Color
		for i := uint32(0); i < 4000; i++ {
			v := c.V
			v[ax] = math.Float32frombits(b0 + i)
			lab := col(v).ToLAB(wp)
			want := ref.ToLab(v3(v), W)
			got := [3]float64{float64(lab.L), float64(lab.A), float64(lab.B)}
			for k := range got {
				if !(math.Abs(got[k]-want[k]) <= 1e-3) {
					return "definition", fmt.Sprintf("junction sweep axis %d: ToLAB(%v, white %v) = %v, definition %v", ax, v, c.White, got, want)
				}
			}
			if i > 0 {
				if ax == 1 && lab.L < prev.L {
					return "monotone", fmt.Sprintf("L* decreases from %.9g to %.9g when Y steps up to %.9g (white %v)", prev.L, lab.L, v[1], c.White)
				}
				if math.Abs(float64(lab.L-prev.L)) >= 1e-4+ulp(lab.L) || math.Abs(float64(lab.A-prev.A)) >= 1e-4+ulp(lab.A) || math.Abs(float64(lab.B-prev.B)) >= 1e-4+ulp(lab.B) {
					return "continuity", fmt.Sprintf("adjacent floats at the junction (axis %d, value %.9g, white %v) jump from %v to %v", ax, v[ax], c.White, prev, lab)
				}
			}
			prev = lab
		}
	case "monotone":
		// V = (X, Y1, Z), White, Axis unused; Y2 = next float(s)
		v1, v2 := c.V, c.V
		v2[1] = math.Float32frombits(math.Float32bits(c.V[1]) + uint32(c.Axis))
		if !(v2[1] > v1[1]) {
			return "", ""
		}
		l1, l2 := col(v1).ToLAB(wp).L, col(v2).ToLAB(wp).L
		if l2 < l1 {
			return "monotone", fmt.Sprintf("L*(%.9g)=%.9g > L*(%.9g)=%.9g (white %v)", v1[1], l1, v2[1], l2, c.White)
		}
	}
	return "", ""
}

func ulp(x float32) float64 {
	a := math.Abs(float64(x))
	return float64(math.Float32frombits(math.Float32bits(float32(a))+1)) - a
}

var D50 = [3]float32{ciexyz.D50.X, ciexyz.D50.Y, ciexyz.D50.Z}
var D65 = [3]float32{ciexyz.D65.X, ciexyz.D65.Y, ciexyz.D65.Z}

func nontrivial(c Case) bool {
	if c.White != D50 && c.White != D65 {
		return true
	}
	for i, x := range c.V {
		if c.Kind == "tolab" {
			if x < 0 || x > 1 {
				return true
			}
			if r := float64(x) / float64(c.White[i]); math.Abs(r-ref.LabEps) < 1e-3 {
				return true
			}
		}
	}
	return c.Kind != "tolab"
}

func TestC13(t *testing.T) {
	if k, _ := ev.Replaying()["key"].(string); ev.Replaying() != nil && k != "scale-sequence" {
		var c Case
		if err := ev.ReplayCase(&c); err != nil {
			t.Fatal(err)
		}
		if k, w := check(c); k != "" {
			ev.Fail(t, "lab", k, w, c)
		}
		fmt.Println("REPLAY case passed:", c)
		return
	}
	ev.Rule("XYZ lattice over [-0.5,2]^3 (64^3 quick, 256^3 thorough) and rapid float32 triples, x whites {D50, D65, rapid positive whites with components in [0.5,2], lopsided whites with components log-uniform in [1e-4, 3.2] and the colour given relative to the white}; junction sweeps of 4000 consecutive float32 values centred on white*216/24389 on each axis; multiples t*white for t in (0,2]; Lab box L in [-10,110], a,b in [-200,200] for the inverse; (Y, next float) pairs for monotone L*; very large finite XYZ for finiteness; a run of 140000 conversions over three whites in rotation and very few colours, rare ones returning 255..257 and 65535..65537 conversions later under another white; an eighth of the rapid cases and half of the special-value cases directly follow a request outside the domain (non-finite component, white with a zero/NaN/negative component) whose answer is ignored. non-trivial = distinct case with a component outside [0,1], a ratio within 1e-3 of the junction, a non-standard white, or any non-ToLAB kind")
	ev.Assume("float64 CIE 1976 formulas in internal/ref (math.Cbrt, eps=216/24389, kappa=24389/27); colour/white ratios within about [-1, 4] (whites >= 0.5 per component for colours in [-0.5,2]^3; for smaller whites the colour is drawn relative to the white) so that the stated tolerances are satisfiable by a float32 result")
	whites := [][3]float32{D50, D65, {0.5, 0.5, 0.5}, {2, 2, 2}, {0.7, 1, 1.9}, {1.3, 0.55, 0.8}, {1.3233, 1, 0.0023}, {0.004, 0.9, 1.2}}
	n := ev.Pick(64, 256)
	for _, w := range whites[:ev.Pick(2, 4)] {
		var wg sync.WaitGroup
		sem := make(chan struct{}, 16)
		var mu sync.Mutex
		var first *Case
		var fk, fw string
		for i := 0; i < n; i++ {
			wg.Add(1)
			sem <- struct{}{}
			go func(i int) {
				defer wg.Done()
				defer func() { <-sem }()
				for j := 0; j < n; j++ {
					for k := 0; k < n; k++ {
						f := func(q int) float32 { return float32(-0.5 + 2.5*float64(q)/float64(n-1)) }
						c := Case{Kind: "tolab", V: [3]float32{f(i), f(j), f(k)}, White: w}
						if kk, ww := check(c); kk != "" {
							mu.Lock()
							if first == nil {
								cc := c
								first, fk, fw = &cc, kk, ww
							}
							mu.Unlock()
							return
						}
					}
				}
			}(i)
		}
		wg.Wait()
		ev.Eval(int64(n) * int64(n) * int64(n))
		ev.NTAdd(int64(n)*int64(n)*int64(n) - int64(n*2/5)*int64(n*2/5)*int64(n*2/5)) // conservative: points with a component outside [0,1]
		ev.Class("lattice-tolab", int64(n)*int64(n)*int64(n))
		if first != nil {
			ev.Violation("lab", fk, fw, *first)
		}
	}
	// Lab lattice for the inverse
	m := ev.Pick(40, 120)
	for _, w := range whites[:ev.Pick(2, 4)] {
		bad := false
		for i := 0; i < m && !bad; i++ {
			for j := 0; j < m && !bad; j++ {
				for k := 0; k < m && !bad; k++ {
					c := Case{Kind: "fromlab", V: [3]float32{float32(-10 + 120*float64(i)/float64(m-1)), float32(-200 + 400*float64(j)/float64(m-1)), float32(-200 + 400*float64(k)/float64(m-1))}, White: w}
					ev.Eval(1)
					ev.NTAdd(1)
					if kk, ww := check(c); kk != "" {
						bad = true
						ev.Violation("lab", kk, ww, c)
					}
				}
			}
		}
		ev.Class("lattice-fromlab", int64(m)*int64(m)*int64(m))
	}
	// junction sweeps + neutrals
	for _, w := range whites {
		for ax := 0; ax < 3; ax++ {
			for _, other := range [][3]float32{{0.3, 0.4, 0.2}, {0, 0, 0}, {1.5, 0.002, 1}} {
				c := Case{Kind: "junction", V: other, White: w, Axis: ax}
				ev.Eval(4000)
				ev.NT(ev.Hash("junction", c))
				if kk, ww := check(c); kk != "" {
					ev.Violation("lab", kk, ww, c)
				}
			}
		}
		for i := 1; i <= 400; i++ {
			c := Case{Kind: "neutral", V: [3]float32{float32(i) / 200}, White: w}
			ev.Eval(1)
			ev.NT(ev.Hash("neutral", c))
			if kk, ww := check(c); kk != "" {
				ev.Violation("lab", kk, ww, c)
				break
			}
		}
		for _, tt := range []float32{1e-6, 1e-4, 0.008, 0.0088, 0.00886, 0.0089, 0.01} {
			c := Case{Kind: "neutral", V: [3]float32{tt}, White: w}
			ev.Eval(1)
			if kk, ww := check(c); kk != "" {
				ev.Violation("lab", kk, ww, c)
			}
		}
	}
	ev.Class("junction-sweeps", int64(len(whites)*9))
	// ratios EXACTLY equal to 216/24389: white component 24389*k/2^m and colour component 216*k/2^m are both exact
	// float32 values (24389*k < 2^24), so the ratio is the junction constant itself, on one, two or all three axes
	for k := 1; k <= 687; k += 1 + k/16 {
		m := 0
		for float64(24389*k)/math.Ldexp(1, m) >= 2 {
			m++
		}
		wv := float32(float64(24389*k) / math.Ldexp(1, m))
		cv := float32(float64(216*k) / math.Ldexp(1, m))
		for axes := 1; axes < 8; axes++ {
			w := [3]float32{0.9642, 1, 0.8251}
			v := [3]float32{0.3, 0.4, 0.2}
			for ax := 0; ax < 3; ax++ {
				if axes&(1<<uint(ax)) != 0 {
					w[ax], v[ax] = wv, cv
				}
			}
			c := Case{Kind: "tolab", V: v, White: w}
			ev.Eval(1)
			ev.NT(ev.Hash("exact-junction", c))
			if kk, ww := check(c); kk != "" {
				ev.Violation("lab", kk, ww, c)
			}
		}
	}
	// consecutive calls with DIFFERENT whites at the same (very small or very large) scale: first every unscaled
	// result, then the scaled calls back to back, so that state kept from one call to the next (a memo of the
	// last white, say) meets a different white of similar magnitude
	for _, k := range []int{-40, -30, -24, -23, -10, 10, 30} {
		f := float32(math.Ldexp(1, k))
		type pair struct {
			c    Case
			base cielab.Color
		}
		var ps []pair
		for i, w := range whites {
			c := Case{Kind: "scale", V: [3]float32{0.3 + float32(i)/10, 0.5, 0.2 + float32(i)/20}, White: w, Axis: k}
			ps = append(ps, pair{c, col(c.V).ToLAB(col(c.White))})
		}
		for _, p := range ps {
			ev.Eval(1)
			ev.NT(ev.Hash("scale-seq", p.c))
			sc := ciexyz.Color{X: p.c.V[0] * f, Y: p.c.V[1] * f, Z: p.c.V[2] * f}.ToLAB(ciexyz.Color{X: p.c.White[0] * f, Y: p.c.White[1] * f, Z: p.c.White[2] * f})
			if sc != p.base {
				ev.Violation("lab", "scale-sequence", fmt.Sprintf("in a sequence of calls with different whites all scaled by 2^%d, ToLAB(%v, white %v) scaled gives %v, unscaled %v", k, p.c.V, p.c.White, sc, p.base), p.c)
				break
			}
		}
	}
	nspecial := 0
	// exact special values: components exactly 0, exactly white*eps (as float32), exactly the white, and Lab values
	// exactly at L* = 8 (= kappa*eps), 0 and 100
	for _, w := range whites {
		sp := func(i int) []float32 {
			// ... and the white's OTHER components in this position (a colour that equals the white in one channel, or
			// equals another channel's white)
			return []float32{0, float32(float64(w[i]) * ref.LabEps), w[i], float32(math.Copysign(0, -1)), 1, w[i] / 2, w[(i+1)%3], w[(i+2)%3]}
		}
		for _, x := range sp(0) {
			for _, y := range sp(1) {
				for _, z := range sp(2) {
					c := Case{Kind: "tolab", V: [3]float32{x, y, z}, White: w}
					nspecial++
					if nspecial%2 == 0 {
						c.After = 1 + nspecial/2%10
					}
					ev.Eval(1)
					ev.NT(ev.Hash("special", c))
					if kk, ww := check(c); kk != "" {
						ev.Violation("lab", kk, ww, c)
					}
				}
			}
		}
		for _, L := range []float32{0, 8, 7.9999995, 8.000001, 100, 50} {
			for _, a := range []float32{0, -0.0001, 128} {
				c := Case{Kind: "fromlab", V: [3]float32{L, a, -a}, White: w}
				ev.Eval(1)
				ev.NT(ev.Hash("special", c))
				if kk, ww := check(c); kk != "" {
					ev.Violation("lab", kk, ww, c)
				}
			}
		}
	}
	ev.Sample(map[string]any{"kind": "tolab", "xyz": []float32{0.2, 0.3, 0.4}, "white": "D50", "lab": ciexyz.Color{X: 0.2, Y: 0.3, Z: 0.4}.ToLAB(ciexyz.D50), "definition": ref.ToLab(ref.V3{float64(float32(0.2)), float64(float32(0.3)), float64(float32(0.4))}, v3(D50))})

	ev.RapidChecks(ev.Pick(200000, 5000000))
	ev.RapidSeed(13)
	var early []Case
	rapid.Check(t, func(rt *rapid.T) {
		var c Case
		switch rapid.IntRange(0, 9).Draw(rt, "kind") {
		case 0, 1, 2, 3, 4:
			c.Kind = "tolab"
			for i := range c.V {
				c.V[i] = rapid.Float32Range(-0.5, 2).Draw(rt, "v")
			}
		case 5, 6:
			c.Kind = "fromlab"
			c.V = [3]float32{rapid.Float32Range(-10, 110).Draw(rt, "L"), rapid.Float32Range(-200, 200).Draw(rt, "a"), rapid.Float32Range(-200, 200).Draw(rt, "b")}
		case 7:
			c.Kind = "finite"
			for i := range c.V {
				c.V[i] = rapid.Float32Range(-3e38, 3e38).Draw(rt, "big")
			}
		case 8:
			c.Kind = "monotone"
			c.V = [3]float32{rapid.Float32Range(-0.5, 2).Draw(rt, "x"), rapid.Float32Range(-0.5, 2).Draw(rt, "y"), rapid.Float32Range(-0.5, 2).Draw(rt, "z")}
			c.Axis = rapid.IntRange(1, 1000).Draw(rt, "ulps")
		case 9:
			c.Kind = "neutral"
			c.V[0] = rapid.Float32Range(1e-6, 2).Draw(rt, "t")
		}
		if c.Kind == "tolab" && rapid.IntRange(0, 3).Draw(rt, "scaled") == 0 {
			c.Kind = "scale"
			c.Axis = rapid.IntRange(-40, 40).Draw(rt, "exp2")
		}
		switch rapid.IntRange(0, 3).Draw(rt, "white") {
		case 0:
			c.White = D50
		case 1:
			c.White = D65
		case 2:
			for i := range c.White {
				c.White[i] = rapid.Float32Range(0.5, 2).Draw(rt, "w")
			}
		default:
			// lopsided whites: saturated light sources, narrow-band lamps, whites given in other units - each component
			// anywhere between 1e-4 and 3, independently.  The colour is then taken relative to THAT white (the drawn
			// components become ratios), so Lab stays in the range a float32 result can resolve to 1e-3
			for i := range c.White {
				c.White[i] = float32(math.Pow(10, rapid.Float64Range(-4, 0.5).Draw(rt, "wexp")))
			}
			if c.Kind == "tolab" || c.Kind == "scale" || c.Kind == "monotone" {
				for i := range c.V {
					c.V[i] *= c.White[i]
				}
			}
		}
		// a sixth of the forward cases are near-neutral: a multiple of the white whose X and Z are off by a relative
		// 1e-7 .. 1e-2 (tinted greys, whites of other standards): small a*, b* that are not zero
		if c.Kind == "tolab" && rapid.IntRange(0, 5).Draw(rt, "nearneutral") == 0 {
			tt := rapid.Float32Range(0.01, 1.5).Draw(rt, "nnt")
			for i := range c.V {
				d := float32(0)
				if i != 1 {
					d = float32(math.Pow(10, rapid.Float64Range(-7, -2).Draw(rt, "nnexp")))
					if rapid.Bool().Draw(rt, "nnneg") {
						d = -d
					}
				}
				c.V[i] = tt * c.White[i] * (1 + d)
			}
		}
		if rapid.IntRange(0, 7).Draw(rt, "afteroutside") == 0 {
			c.After = rapid.IntRange(1, 10).Draw(rt, "outside")
			// zero components meet leftovers most easily
			if c.Kind == "tolab" && rapid.Bool().Draw(rt, "zerocomp") {
				c.V[rapid.IntRange(0, 2).Draw(rt, "zeroaxis")] = 0
			}
		}
		ev.Eval(1)
		if nontrivial(c) {
			ev.NT(ev.Hash("rapid", c))
		}
		ev.Class("rapid-"+c.Kind, 1)
		if ev.SampleN() < 6 {
			ev.Sample(c)
		}
		if len(early) < 400 {
			early = append(early, c)
		}
		if k, w := check(c); k != "" {
			ev.Fail(rt, "lab", k, w, c)
		}
	})
	// a long run that keeps changing the reference white (three whites in rotation) over very few colours, in which
	// rare colours return exactly 255..257 and 65535..65537 conversions later under another white: what a conversion
	// remembers about a colour or a white (stamps and counters wrap at such distances) must not survive to the wrong one
	{
		ws := [][3]float32{D50, D65, {1.0985, 1, 0.3558}}
		common := [][3]float32{{0.2, 0.3, 0.4}, {0.9, 0.95, 0.7}, {0.01, 0.02, 0.005}, {0.5, 0.5, 0.5}}
		dist := []int{255, 256, 257, 65535, 65536, 65537}
		n := 140000
		for i := 0; i < n; i++ {
			v := common[i%len(common)]
			for _, d := range dist {
				if i%d == 0 {
					v = [3]float32{0.3 + float32(d%7)/20, 0.25 + float32(d%5)/15, 0.1 + float32(d%3)/9}
				}
			}
			c := Case{Kind: "tolab", V: v, White: ws[i%3]}
			if k, w := check(c); k != "" {
				ev.Violation("lab", k, fmt.Sprintf("conversion %d of a long run over three whites in rotation: %s", i+1, w), c)
				break
			}
		}
		ev.Eval(int64(n))
		ev.Class("white-rotation-soak", int64(n))
	}
	// the first 400 generated cases once more, after everything else has been asked: what the library may have
	// remembered in the meantime (memos, caches that filled up and evicted, adapted sizes) must not change them
	for _, c := range early {
		ev.Eval(1)
		if k, w := check(c); k != "" {
			ev.Violation("lab", k, "asked again after many other calls: "+w, c)
			break
		}
	}
	if ev.Violations() > 0 {
		t.Fail()
	}
}
