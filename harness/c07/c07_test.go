// C07 — the returned stream always replays the complete original input.
package c07

import (
	"bufio"
	"bytes"
	"fmt"
	"io"
	"path/filepath"
	"sync"
	"sync/atomic"
	"testing"
	"verif/internal/build"

	"pgregory.net/rapid"

	"verif/internal/ev"
	"verif/internal/gen"
	"verif/internal/ld"
	"verif/internal/mut"
	"verif/internal/seeds"
	"verif/internal/src"
)

func TestMain(m *testing.M) { ev.Main(m, "C07", "fault_enumeration") }

type Case struct {
	Seed          string `json:"seed"`
	Data          []byte `json:"data"`
	FaultAt       int64  `json:"fault_at"` // -1: none
	FaultWithData bool   `json:"fault_with_data"`
	FaultErr      string `json:"fault_err,omitempty"` // which error value the source fails with (src.FaultErrs)
	Sizes         []int  `json:"sizes"`
	DataWithEOF   bool   `json:"data_with_eof"`
	Drain         []int  `json:"drain"`
	ZeroEvery     int    `json:"zero_every,omitempty"` // every n-th source read returns (0, nil)
	// Chain: the source handed to the loader is itself the stream returned by an earlier load (loader ChainLoader)
	// of the same input, of which ChainSkip bytes have already been read - images that follow one another in one
	// stream.  The "original source" is then what that stream still had to give.
	ChainLoader string `json:"chain_loader,omitempty"`
	ChainSkip   int    `json:"chain_skip,omitempty"`
	Loader      string `json:"loader"`
	// Std > 0: the source is a *bytes.Reader (seekable, WriterTo, ReaderAt) holding Std-1 unrelated bytes in
	// front of the input and already advanced past them, as when an image is embedded in a container
	Std int `json:"std_reader_prefix_plus_1,omitempty"`
	// StdKind selects the dynamic type of that source: bytes.Reader (default), bytes.Buffer, strings.Reader,
	// bufio.Reader, os.File, io.SectionReader - loaders must not behave differently for any of them
	StdKind string `json:"std_kind,omitempty"`
	// PastEnd > 0 (seekable standard readers only): the reader is positioned that many bytes BEYOND its end before
	// the load (a fixed-size header skipped with Seek in a file that turned out shorter); there is nothing to
	// replay, and nothing to panic about
	PastEnd int `json:"past_end,omitempty"`
	// Seekable: the instrumented (short-reading, possibly failing) source also implements io.Seeker
	Seekable bool `json:"seekable,omitempty"`
}

var stdKinds = src.StdKinds

func stdSource(kind string, prefix int, data []byte) (io.Reader, func() int, func()) {
	return src.Std(kind, prefix, data, filepath.Join(ev.Root(), "out", "run", "C07"))
}

// drain reads the stream to its end.  sizes[0] < 0 selects another standard way of consuming a reader:
// -1 io.Copy (uses WriteTo when the stream offers it), -2 io.ReadAll, -3 bufio.Reader.WriteTo, -4 ReadByte when
// the stream offers io.ByteReader (else single-byte reads)
func drain(r io.Reader, sizes []int, limit int) (out []byte, err error, stalled bool) {
	if len(sizes) > 0 && sizes[0] < 0 {
		var buf bytes.Buffer
		switch sizes[0] {
		case -1:
			_, err = io.Copy(&buf, r)
		case -2:
			var b []byte
			b, err = io.ReadAll(r)
			buf.Write(b)
		case -3:
			_, err = bufio.NewReaderSize(r, 512).WriteTo(&buf)
		default:
			if br, ok := r.(io.ByteReader); ok {
				for {
					c, e := br.ReadByte()
					if e != nil {
						if e != io.EOF {
							err = e
						}
						break
					}
					buf.WriteByte(c)
					if buf.Len() > limit+1<<20 {
						return buf.Bytes(), nil, true
					}
				}
			} else {
				return drain(r, []int{1}, limit)
			}
		}
		return buf.Bytes(), err, false
	}
	if len(sizes) == 0 {
		sizes = []int{32768}
	}
	buf := make([]byte, 32768)
	zero, idle := 0, 0
	for i := 0; ; i++ {
		k := sizes[i%len(sizes)]
		if k == 0 {
			// a zero-length read (allowed by io.Reader: it returns 0 and must not disturb the stream); a list of
			// zeros only would never finish, so every second pass over an all-zero list reads one byte
			var n int
			var e error
			if i%2 == 0 {
				n, e = r.Read(buf[:0])
			} else {
				n, e = r.Read(nil)
			}
			if n != 0 {
				return out, fmt.Errorf("zero-length Read returned n=%d", n), false
			}
			if e == io.EOF {
				return out, nil, false // the stream says it has ended; the byte comparison decides whether it had
			}
			if e != nil {
				return out, e, false
			}
			idle++
			if idle > 1000 { // a thousand reads in a row without a byte: the stream is not advancing
				return out, nil, true
			}
			if e == nil && i%len(sizes) == len(sizes)-1 {
				allZero := true
				for _, z := range sizes {
					allZero = allZero && z == 0
				}
				if allZero {
					k = 1
				} else {
					continue
				}
			} else {
				continue
			}
		}
		if k < 1 {
			k = 1
		}
		if k > len(buf) {
			k = len(buf)
		}
		n, e := r.Read(buf[:k])
		out = append(out, buf[:n]...)
		if e != nil {
			if e == io.EOF { // identity, not errors.Is: an error that merely wraps io.EOF is an error
				return out, nil, false
			}
			return out, e, false
		}
		if n == 0 {
			zero++
			if zero > 100 {
				return out, nil, true
			}
		} else {
			zero, idle = 0, 0
		}
		if len(out) > limit+1<<20 {
			return out, nil, true
		}
	}
}

// check returns kind/what and whether the case is non-trivial (fault before Load returned, or
// a short-reading source, or truncation strictly inside a structure - the caller knows the latter).
func check(c Case) (kind, what string, nt bool) {
	s := &src.Source{Data: c.Data, FaultAt: c.FaultAt, FaultWithData: c.FaultWithData, FaultErr: c.FaultErr, Sizes: c.Sizes, DataWithEOF: c.DataWithEOF, ZeroEvery: c.ZeroEvery}
	var o ld.Outcome
	if c.Std > 0 {
		r, remaining, cleanup := stdSource(c.StdKind, c.Std-1, c.Data)
		defer cleanup()
		past := false
		if sk, ok := r.(io.Seeker); ok && c.PastEnd > 0 {
			if _, err := sk.Seek(int64(c.PastEnd), io.SeekEnd); err == nil {
				past = true
				c.Data = nil
			}
		}
		o = ld.Run(c.Loader, r)
		s.Pos = -1
		if n := remaining(); n >= 0 && !past {
			s.Pos = int64(len(c.Data)) - int64(n)
		}
	} else if c.ChainLoader != "" {
		first := ld.Run(c.ChainLoader, s)
		if first.Panic != "" || first.Stream == nil {
			return c.ChainLoader + "/panic", "first load of a chain: " + first.Panic + " / nil stream", true
		}
		skip := c.ChainSkip
		if skip > len(c.Data) {
			skip = len(c.Data)
		}
		head := make([]byte, skip)
		if n, err := io.ReadFull(first.Stream, head); err != nil || !bytes.Equal(head[:n], c.Data[:skip]) {
			return c.ChainLoader + "/bytes", fmt.Sprintf("first %d bytes of the first stream of a chain wrong (read %d, err %v)", skip, n, err), true
		}
		c.Data = c.Data[skip:] // what the second loader's source still has to deliver
		o = ld.Run(c.Loader, first.Stream)
	} else if c.Seekable {
		o = ld.Run(c.Loader, src.Seekable{Source: s})
	} else {
		o = ld.Run(c.Loader, s)
	}
	k := c.Loader + "/"
	if o.Panic != "" {
		return k + "panic", "loader panicked: " + o.Panic, true
	}
	if o.Stream == nil {
		return k + "nil-stream", fmt.Sprintf("loader returned a nil stream (err=%q) for %s", o.Err, c.Seed), true
	}
	pulled := s.Pos
	want := c.Data
	fault := c.FaultAt >= 0 && c.FaultAt <= int64(len(c.Data)) // a fault exactly at the end replaces the clean EOF
	if fault {
		want = c.Data[:c.FaultAt]
	}
	nt = (fault && c.FaultAt <= pulled) || len(c.Sizes) > 0
	if interleave != nil {
		// another complete load-and-drain happens before this stream is read
		o2 := ld.Run(c.Loader, bytes.NewReader(interleave))
		if o2.Stream != nil {
			_, _ = io.Copy(io.Discard, o2.Stream)
		}
	}
	var got []byte
	var derr error
	var stalled bool
	if pn, msg := ev.Guard(func() { got, derr, stalled = drain(o.Stream, c.Drain, len(c.Data)) }); pn {
		return k + "panic", "reading the returned stream panicked: " + msg, nt
	}
	if stalled {
		return k + "stalled", fmt.Sprintf("returned stream does not terminate (%d bytes so far, input %d)", len(got), len(c.Data)), nt
	}
	if !bytes.Equal(got, want) {
		return k + "bytes", fmt.Sprintf("stream yields %d bytes, source delivered %d (first difference at %d); loader had pulled %d bytes, fault at %d, load err=%q (%s)", len(got), len(want), firstDiff(got, want), pulled, c.FaultAt, o.Err, c.Seed), nt
	}
	if fault {
		if derr == nil || !src.SameErr(derr, s.Err()) {
			return k + "error-lost", fmt.Sprintf("source failed at byte %d with the I/O error %q but the stream ended with %v after %d bytes (loader had pulled %d; %s)", c.FaultAt, s.Err(), derr, len(got), pulled, c.Seed), nt
		}
	} else if derr != nil {
		return k + "spurious-error", fmt.Sprintf("stream ended with %v although the source ended cleanly (%s)", derr, c.Seed), nt
	}
	return "", "", nt
}

// interleave: input of another load to run between a load and the reading of its stream (rapid part only)
var interleave, pendingData []byte

func firstDiff(a, b []byte) int {
	for i := 0; i < len(a) && i < len(b); i++ {
		if a[i] != b[i] {
			return i
		}
	}
	if len(a) < len(b) {
		return len(a)
	}
	return len(b)
}

var schedules = [][]int{nil, {1}, {7}, {4096}, {3, 1, 4097, 2, 64, 5}}
var drains = [][]int{{32768}, {1}, {5, 1, 300}, {4096}, {-1}, {-2}, {-3}, {-4}, {0, 7}, {3, 0, 0, 4096}}

type input struct {
	name string
	data []byte
	pos  []int // positions to enumerate
	in   map[int]bool
}

func positions(sd seeds.Seed, data []byte, stride int) ([]int, map[int]bool) {
	inside := map[int]bool{}
	es := mut.Ends(sd.Map, len(data))
	isEnd := map[int]bool{}
	for _, e := range es {
		isEnd[e] = true
	}
	var pos []int
	if len(data) <= 8192 {
		for p := 0; p <= len(data); p += 1 {
			pos = append(pos, p)
		}
	} else {
		set := map[int]bool{0: true, len(data): true, len(data) - 1: true}
		for _, e := range es {
			for d := -1; d <= 1; d++ {
				if e+d >= 0 && e+d <= len(data) {
					set[e+d] = true
				}
			}
		}
		for k, n := 4096, 0; k < len(data) && n < 40; k, n = k+4096, n+1 {
			set[k-1], set[k], set[k+1] = true, true, true
		}
		for p := 0; p < 12288 && p < len(data); p += stride {
			set[p] = true
		}
		for p := range set {
			pos = append(pos, p)
		}
	}
	for _, p := range pos {
		inside[p] = !isEnd[p]
	}
	return pos, inside
}

func TestC07(t *testing.T) {
	if ev.Replaying() != nil {
		var c Case
		if err := ev.ReplayCase(&c); err != nil {
			t.Fatal(err)
		}
		if k, w, _ := check(c); k != "" {
			ev.Fail(t, "stream", k, w, c)
		}
		fmt.Println("REPLAY case passed")
		return
	}
	ev.Rule("seeds: the repository's test images and profile, grammar-built valid files of all three formats with and without ICC, corrupted variants (field set to hostile value, chunk dropped/duplicated, type changed), empty input, random bytes, signature-only prefixes. For every seed <= 8 KiB EVERY prefix length is used as truncation point and EVERY byte position as sticky-fault position (error alone, and error together with the preceding data); for larger seeds every structural boundary +-1, every multiple of 4096 +-1 and (stride 7 quick / 1 thorough) the first 12 KiB. Source schedules: all-at-once, 1, 7, 4096, mixed list, some with every 2nd/3rd read returning (0, nil) (one per position by hash in quick, all in thorough); the returned stream is drained with read sizes 32768 / 1 / mixed / 4096, with zero-length reads in between, and through io.Copy / io.ReadAll / bufio.WriteTo / ReadByte; four loaders; plus rapid-generated files with rapid schedules, a sixth of them handed over as the partly read stream of an earlier load. non-trivial = distinct case whose truncation lies strictly inside a structure, or whose fault position had been reached before Load returned, or whose source delivers short reads")
	ev.Assume("faults are sticky (a failed source keeps failing); sources never return (0, nil)")
	var inputs []input
	stride := ev.Pick(7, 1)
	all := seeds.All()
	for _, sd := range append(seeds.Hostile(), all...) {
		p, in := positions(sd, sd.Data, stride)
		inputs = append(inputs, input{sd.Name, sd.Data, p, in})
	}
	// corrupted variants of the small seeds
	for i, sd := range all {
		if len(sd.Data) > 8192 || len(sd.Map.Fields) == 0 {
			continue
		}
		f := sd.Map.Fields[(i*7)%len(sd.Map.Fields)]
		vals := mut.HostileValues(f.Get(sd.Data), f.Len, len(sd.Data)-f.Off-f.Len)
		d := mut.Apply(sd.Data, sd.Map, []mut.Op{{Kind: "set", Field: (i * 7) % len(sd.Map.Fields), Value: vals[(i*3)%len(vals)]}}, nil)
		p, in := positions(seeds.Seed{Map: sd.Map}, d, stride)
		inputs = append(inputs, input{sd.Name + "+set(" + f.Name + ")", d, p, in})
		es := mut.Ends(sd.Map, len(sd.Data))
		if len(es) > 4 {
			d2 := mut.Apply(sd.Data, sd.Map, []mut.Op{{Kind: "drop", A: es[2], B: es[3]}}, nil)
			p2, in2 := positions(seeds.Seed{}, d2, stride)
			inputs = append(inputs, input{sd.Name + "+drop", d2, p2, in2})
		}
	}
	var firstJPEG []byte
	for _, in := range inputs {
		if len(in.data) > 2 && in.data[0] == 0xFF && in.data[1] == 0xD8 && firstJPEG == nil {
			firstJPEG = in.data
		}
	}
	junk := make([]byte, 300)
	x := uint32(ev.Seed()*2654435761 + 99)
	for i := range junk {
		x = x*1664525 + 1013904223
		junk[i] = byte(x >> 24)
	}
	for _, extra := range []input{{name: "empty", data: nil}, {name: "random", data: junk},
		{name: "png-signature", data: []byte{0x89, 'P', 'N', 'G', 0x0D, 0x0A, 0x1A, 0x0A}}, {name: "jpeg-soi", data: []byte{0xFF, 0xD8}},
		{name: "riff-webp", data: []byte("RIFF\x04\x00\x00\x00WEBP")},
		// inputs that BEGIN with padding a signature check may be tempted to skip over: fill bytes, zeros, whitespace
		{name: "ff-run", data: []byte{0xFF, 0xFF, 0xFF}}, {name: "ff-padded-junk", data: append(bytes.Repeat([]byte{0xFF}, 16), junk[:40]...)},
		{name: "fill-before-soi", data: append([]byte{0xFF, 0xFF, 0xFF}, firstJPEG[:min(len(firstJPEG), 600)]...)},
		{name: "ff-before-jpeg-seed", data: append([]byte{0xFF}, 0xFF, 0xD8, 0xFF, 0xC0, 0, 11, 8, 0, 1, 0, 1, 1, 1, 0x11, 0, 0xFF, 0xDA, 0, 8, 1, 1, 0, 0, 63, 0, 7, 0xFF, 0xD9)},
		{name: "zero-run", data: make([]byte, 9)}, {name: "spaces-before-png", data: append([]byte("  \r\n"), 0x89, 'P', 'N', 'G', 0x0D, 0x0A, 0x1A, 0x0A, 0, 0, 0, 13, 'I', 'H', 'D', 'R')}, {name: "png-huge-first-chunk", data: append([]byte{0x89, 'P', 'N', 'G', 0x0D, 0x0A, 0x1A, 0x0A, 0xFF, 0xFF, 0xFF, 0xF0, 't', 'E', 'X', 't'}, junk...)}} {
		p, in := positions(seeds.Seed{}, extra.data, 1)
		extra.pos, extra.in = p, in
		inputs = append(inputs, extra)
	}
	ev.Set("seed_inputs", len(inputs))

	var evals, nts int64
	var mu sync.Mutex
	bad := map[string]bool{}
	run := func(c Case, inside bool) {
		atomic.AddInt64(&evals, 1)
		k, w, nt := check(c)
		if nt || inside {
			atomic.AddInt64(&nts, 1)
		}
		if k != "" {
			mu.Lock()
			if !bad[k] {
				bad[k] = true
				ev.Violation("stream", k, w, c)
			}
			mu.Unlock()
		}
	}
	var wg sync.WaitGroup
	sem := make(chan struct{}, 16)
	for ii, in := range inputs {
		wg.Add(1)
		sem <- struct{}{}
		go func(ii int, in input) {
			defer wg.Done()
			defer func() { <-sem }()
			for _, p := range in.pos {
				for li, loader := range ld.Names {
					h := uint64(p)*0x9E3779B1 + uint64(ii)*31 + uint64(li)*7 + ev.Seed()
					scheds := [][]int{schedules[h%uint64(len(schedules))]}
					if ev.Thorough() && len(in.data) <= 8192 {
						scheds = schedules
					}
					for si, sc := range scheds {
						dr := drains[(h/7+uint64(si))%uint64(len(drains))]
						// the same truncated input from a seekable standard reader positioned after a prefix
						if h%4 == 0 {
							run(Case{Seed: in.name, Data: in.data[:p], FaultAt: -1, Drain: dr, Loader: loader, Std: 1 + int(h/4%3)*27, StdKind: stdKinds[int(h/12)%len(stdKinds)]}, in.in[p])
						}
						// truncation at p
						run(Case{Seed: in.name, Data: in.data[:p], FaultAt: -1, Sizes: sc, DataWithEOF: h%3 == 0, Drain: dr, Loader: loader, Seekable: h%5 == 1, ZeroEvery: []int{0, 0, 0, 2, 3}[h/11%5]}, in.in[p])
						// sticky fault at p
						if p <= len(in.data) {
							run(Case{Seed: in.name, Data: in.data, FaultAt: int64(p), FaultWithData: h%2 == 0, FaultErr: src.FaultErrNames[int(h/5)%len(src.FaultErrNames)], Sizes: sc, Drain: dr, Loader: loader}, false)
							if ev.Thorough() {
								run(Case{Seed: in.name, Data: in.data, FaultAt: int64(p), FaultWithData: h%2 != 0, Sizes: sc, Drain: dr, Loader: loader}, false)
							}
						}
					}
				}
			}
		}(ii, in)
	}
	wg.Wait()
	ev.Eval(evals)
	ev.NTAdd(nts)
	ev.Class("enumerated-loads", evals)
	ev.Sample(map[string]any{"seed": inputs[2].name, "bytes": len(inputs[2].data), "positions_enumerated": len(inputs[2].pos), "example": "truncate at 57 / fault at 57 with data, source schedule [7], loader auto"})
	ev.Sample(map[string]any{"seed": inputs[3].name, "bytes": len(inputs[3].data), "positions_enumerated": len(inputs[3].pos)})

	// very large inputs (lazy source, streamed comparison): a PNG whose first ancillary chunk is 1 MiB / 5 MiB
	// (quick) or 33 / 65 / 129 MiB (thorough) long, so that the loaders buffer that much before they can decide
	sizes := []int64{1<<20 + 3, 5 << 20}
	if ev.Thorough() {
		sizes = append(sizes, 33<<20, 65<<20, 129<<20)
	}
	for _, n := range sizes {
		head := append([]byte{0x89, 'P', 'N', 'G', 0x0D, 0x0A, 0x1A, 0x0A, 0, 0, 0, 13, 'I', 'H', 'D', 'R', 0, 0, 0, 9, 0, 0, 0, 9, 8, 2, 0, 0, 0, 1, 2, 3, 4},
			byte(n>>24), byte(n>>16), byte(n>>8), byte(n), 't', 'E', 'X', 't')
		for _, loader := range []string{"png", "auto"} {
			s := &src.Source{Data: head, Tail: n + 4 + 12 + 100, FaultAt: -1, Sizes: []int{65536}}
			o := ld.Run(loader, s)
			ev.Eval(1)
			ev.NT(ev.Hash("large", n, loader))
			total := int64(len(head)) + s.Tail
			var got int64
			bad := ""
			if o.Stream == nil {
				bad = "nil stream"
			} else {
				buf := make([]byte, 1<<16)
				for bad == "" {
					k, err := o.Stream.Read(buf)
					for i := 0; i < k; i++ {
						pos := got + int64(i)
						want := byte(0)
						if pos < int64(len(head)) {
							want = head[pos]
						} else {
							want = src.TailByte(pos - int64(len(head)))
						}
						if buf[i] != want {
							bad = fmt.Sprintf("byte %d of the replayed stream is %#x, the source delivered %#x", pos, buf[i], want)
							break
						}
					}
					got += int64(k)
					if err != nil {
						if err != io.EOF {
							bad = "stream error " + err.Error()
						}
						break
					}
				}
			}
			if bad == "" && got != total {
				bad = fmt.Sprintf("stream yields %d bytes, the source has %d (%d lost)", got, total, total-got)
			}
			if bad != "" || o.Panic != "" {
				ev.Violation("stream", loader+"/large-input", fmt.Sprintf("PNG with a %d-byte ancillary chunk before IDAT through %s: %s %s", n, loader, bad, o.Panic), map[string]any{"chunk_bytes": n, "loader": loader})
			}
		}
	}
	ev.Class("large-inputs", int64(2*len(sizes)))
	// embedded profiles of 600 KiB and 1.5 MiB read from sources that deliver whatever is asked for: the loader's
	// growing reads hand the recorder single pieces of hundreds of KiB
	{
		var nbig int64
		for _, n := range []int{600 << 10, 1500<<10 + 7} {
			prof := make([]byte, n)
			x := uint32(n)
			for i := range prof {
				x = x*1664525 + 1013904223
				prof[i] = byte(x >> 24)
			}
			pd, _ := build.PNG{W: 7, H: 5, Depth: 8, ColorType: 2, Pre: []build.Chunk{build.ICCPChunk("big", prof, 0)}, IDAT: make([]byte, 3000)}.Bytes()
			wd, _ := build.WebP{Chunks: []build.RIFFChunk{{FourCC: "VP8X", Data: build.VP8XHeader(0x20, 7, 5)}, {FourCC: "ICCP", Data: prof}, {FourCC: "VP8L", Data: build.VP8LHeader(7, 5, false)}}}.Bytes()
			var sz []int
			for r := n; r > 0; r -= 65519 {
				if r > 65519 {
					sz = append(sz, 65519)
				}
			}
			jd, _ := build.JPEG{Segs: append(build.ICCSegs(prof, sz), build.Seg{Marker: 0xC0, Data: build.SOF(8, 5, 7, [][3]byte{{1, 0x11, 0}})}), SOS: []byte{1, 1, 0, 0, 63, 0}, Entropy: make([]byte, 3000)}.Bytes()
			for fi, d := range [][]byte{pd, wd, jd} {
				for _, loader := range []string{[]string{"png", "webp", "jpeg"}[fi], "auto"} {
					for _, c := range []Case{
						{Seed: fmt.Sprintf("file with a %d-byte embedded profile", n), Data: d, FaultAt: -1, Drain: []int{32768}, Loader: loader},
						{Seed: fmt.Sprintf("file with a %d-byte embedded profile", n), Data: d, FaultAt: -1, Drain: []int{-1}, Loader: loader, Std: 1, StdKind: "bytes.Reader"},
						{Seed: fmt.Sprintf("file with a %d-byte embedded profile", n), Data: d, FaultAt: int64(len(d) - 1000), FaultWithData: true, Sizes: []int{300000}, Drain: []int{4096}, Loader: loader},
					} {
						ev.Eval(1)
						nbig++
						ev.NT(ev.Hash("bigprofile", n, fi, loader, c.Std, c.FaultAt))
						if k, w, _ := check(c); k != "" {
							c.Data = nil
							ev.Violation("stream", k, w, c)
						}
					}
				}
			}
		}
		ev.Class("big-profiles", nbig)
	}
	// rapid: generated files, rapid schedules and drains
	ev.RapidChecks(ev.Pick(3000, 100000))
	ev.RapidSeed(7)
	rapid.Check(t, func(rt *rapid.T) {
		f := gen.Any(rt, gen.Opts{MaxICC: 9000})
		c := Case{Seed: f.Desc, Data: f.Data, FaultAt: -1, Loader: rapid.SampledFrom(ld.Names).Draw(rt, "loader")}
		switch rapid.IntRange(0, 3).Draw(rt, "mode") {
		case 3:
			// a few bytes of padding in front of the file: fill bytes, zeros, whitespace, half a signature
			pad := bytes.Repeat([]byte{byte(rapid.SampledFrom([]int{0xFF, 0xFF, 0, ' ', 0x89, 'R'}).Draw(rt, "padbyte"))}, rapid.IntRange(1, 5).Draw(rt, "padlen"))
			c.Data = append(pad, f.Data[:rapid.IntRange(0, len(f.Data)).Draw(rt, "cutpad")]...)
			c.Seed += fmt.Sprintf(" preceded by %d bytes %#x", len(pad), pad[0])
		case 0:
			c.Data = f.Data[:rapid.IntRange(0, len(f.Data)).Draw(rt, "cut")]
		case 1:
			c.FaultAt = int64(rapid.IntRange(0, len(f.Data)).Draw(rt, "faultat"))
			c.FaultWithData = rapid.Bool().Draw(rt, "withdata")
			c.FaultErr = rapid.SampledFrom(src.FaultErrNames).Draw(rt, "faulterr")
		}
		if rapid.Bool().Draw(rt, "short") {
			c.Sizes = rapid.SliceOfN(rapid.IntRange(1, 5000), 1, 6).Draw(rt, "sizes")
		}
		if c.FaultAt < 0 && rapid.IntRange(0, 3).Draw(rt, "stdreader") == 0 {
			c.Std = 1 + rapid.IntRange(0, 100).Draw(rt, "prefix")
			c.StdKind = rapid.SampledFrom(stdKinds).Draw(rt, "stdkind")
			if rapid.IntRange(0, 7).Draw(rt, "pastend") == 0 {
				c.PastEnd = rapid.SampledFrom([]int{1, 7, 4096, 1 << 20}).Draw(rt, "pastendby")
			}
		}
		c.DataWithEOF = rapid.Bool().Draw(rt, "dataeof")
		c.Drain = rapid.SliceOfN(rapid.SampledFrom([]int{1, 2, 3, 100, 4096, 32768, 0}), 1, 4).Draw(rt, "drain")
		if rapid.IntRange(0, 2).Draw(rt, "stddrain") == 0 {
			c.Drain = []int{rapid.IntRange(-4, -1).Draw(rt, "drainmode")}
		}
		c.Seekable = c.Std == 0 && rapid.IntRange(0, 3).Draw(rt, "seekable") == 0
		if c.Std == 0 && !c.Seekable && c.FaultAt < 0 && rapid.IntRange(0, 5).Draw(rt, "chain") == 0 {
			c.ChainLoader = rapid.SampledFrom(ld.Names).Draw(rt, "chainloader")
			c.ChainSkip = rapid.SampledFrom([]int{0, 1, 8, 75, 1000, 4095, 4096, 4097, 5000, 1 << 20}).Draw(rt, "chainskip")
		}
		if c.Std == 0 && rapid.IntRange(0, 4).Draw(rt, "zeroreads") == 0 {
			c.ZeroEvery = rapid.SampledFrom([]int{2, 3, 7}).Draw(rt, "zeroevery")
		}
		ev.Eval(1)
		// deferred drain: a quarter of the cases first run ANOTHER load (of the previous case's input) between
		// this load and the reading of its stream - streams handed out earlier must not be disturbed
		if pendingData != nil && rapid.IntRange(0, 3).Draw(rt, "interleave") == 0 {
			interleave = append([]byte(nil), pendingData...)
		} else {
			interleave = nil
		}
		pendingData = c.Data
		k, w, nt := check(c)
		if nt {
			ev.NT(ev.Hash("rapid", c.Data, c.FaultAt, c.Sizes, c.Loader))
		}
		if k != "" {
			ev.Fail(rt, "stream", k, w, c)
		}
	})
	if ev.Violations() > 0 {
		t.Fail()
	}
}
