package c07

import (
	"testing"

	"verif/internal/ev"
	"verif/internal/ld"
	"verif/internal/seeds"
)

// FuzzStream: native coverage-guided target (thorough tier) for the stream-replay oracle.
func FuzzStream(f *testing.F) {
	for _, sd := range append(seeds.All(), seeds.Hostile()...) {
		if len(sd.Data) > 12288 {
			sd.Data = sd.Data[:12288]
		}
		f.Add(sd.Data, int64(-1), uint16(0), byte(3), false)
		f.Add(sd.Data, int64(len(sd.Data)/2), uint16(7), byte(0), true)
	}
	f.Fuzz(func(t *testing.T, data []byte, faultAt int64, size uint16, loader byte, withData bool) {
		if len(data) > 1<<18 {
			return
		}
		if faultAt < -1 || faultAt > int64(len(data)) {
			faultAt = -1
		}
		c := Case{Seed: "native fuzzing input", Data: data, FaultAt: faultAt, FaultWithData: withData, Loader: ld.Names[int(loader)%len(ld.Names)], Drain: []int{int(size)%4097 + 1}}
		if size != 0 {
			c.Sizes = []int{int(size)}
		}
		if k, w, _ := check(c); k != "" {
			if !ev.Violation("stream", "fuzz/"+k, w, c) {
				t.Fatalf("VIOLATION %s: %s", k, w)
			}
		}
	})
}
