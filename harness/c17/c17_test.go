// C17 — the ICC description is found via the tag table and decoded as the right string.
package c17

import (
	"bufio"
	"bytes"
	"encoding/binary"
	"fmt"
	"io"
	"strings"
	"testing"
	"unicode/utf16"
	"verif/internal/src"

	"github.com/mandykoh/prism/meta"
	"github.com/mandykoh/prism/meta/icc"
	"github.com/mandykoh/prism/meta/jpegmeta"
	"github.com/mandykoh/prism/meta/pngmeta"
	"pgregory.net/rapid"

	"verif/internal/build"
	"verif/internal/ev"
	vgen "verif/internal/gen"
)

func TestMain(m *testing.M) { ev.Main(m, "C17", "exploration") }

type Rec struct {
	Lang    string `json:"lang"`
	Country string `json:"country"`
	Text    string `json:"text"`
	Share   int    `json:"share"` // -1 own string
	Skip    int    `json:"skip"`  // units skipped into the shared string
}

type Tag struct {
	Sig   uint32 `json:"sig"`
	Len   int    `json:"len"`   // payload length for filler tags
	Share int    `json:"share"` // -1 own block
	// Kind of filler content: "" arbitrary bytes, "desc" a well-formed textDescription with a DIFFERENT text,
	// "mluc" a well-formed multiLocalizedUnicode (with an 'en' record) with a DIFFERENT text, "text" textType
	Kind string `json:"kind,omitempty"`
}

// signatures of tags that occur in real profiles (ICC.1 tag list plus common private ones)
var knownSigs = []string{"A2B0", "A2B1", "A2B2", "B2A0", "B2A1", "B2A2", "bXYZ", "bTRC", "bkpt", "calt", "chad", "chrm", "clro", "clrt", "cprt", "crdi",
	"dmnd", "dmdd", "dscm", "gamt", "gXYZ", "gTRC", "kTRC", "lumi", "meas", "ncl2", "pre0", "pre1", "pre2", "pseq", "psid", "resp", "rXYZ", "rTRC",
	"scrd", "scrn", "targ", "tech", "vued", "view", "wtpt", "vcgt", "mmod", "ndin", "aarg", "aagg", "aabg", "cicp", "meta", "desc"}

func sigOf(s string) uint32 {
	return uint32(s[0])<<24 | uint32(s[1])<<16 | uint32(s[2])<<8 | uint32(s[3])
}

type Case struct {
	Tags     []Tag  `json:"tags"`      // Sig 'desc' marks the description tag
	DescKind string `json:"desc_kind"` // "v2", "v4", "" (absent)
	ASCII    string `json:"ascii,omitempty"`
	// v2 only: the tag's Unicode and ScriptCode parts carry these (different) texts; the description is the ASCII
	// part whatever they hold.  ASCIICount0 writes an empty ASCII part with count 0 instead of a lone NUL.
	Unicode     string `json:"unicode,omitempty"`
	Script      string `json:"script,omitempty"`
	ASCIICount0 bool   `json:"ascii_count0,omitempty"`
	Recs        []Rec  `json:"recs,omitempty"`
	StrOrder    []int  `json:"str_order,omitempty"`
	Gap         int    `json:"gap"`
	Order       []int  `json:"order"` // layout order of own-block tags
	Pad         []int  `json:"pad"`
	TablePad    int    `json:"table_pad"`
	Trailer     int    `json:"trailer"`
	Via         string `json:"via"` // "reader", "png", "jpeg"
	// Hdr, when 128 bytes long, supplies header bytes 8..99 (version, class, colour spaces, date, platform, flags,
	// device, intent, illuminant, creator, ID): legal values that have nothing to do with the description
	Hdr []byte `json:"hdr,omitempty"`
	// After > 0: before the case, Description() is asked of a DAMAGED profile (variant After-1 of damagedBefore):
	// a multi-localised tag whose first records are fine and whose later record points outside the tag, a text
	// description cut short, a tag of another type under the 'desc' signature.  Its answer is ignored.
	After int `json:"after,omitempty"`
	// Twin: before the case, Description() is asked of a profile that is this profile's twin - same header (so the
	// same profile ID, which editors that rename a profile in place do not recompute), same tags, same sizes - with a
	// different description text of the same length
	Twin bool `json:"twin,omitempty"`
}

// twinText changes every letter and digit of s to its neighbour (same length in bytes and in UTF-16 units)
func twinText(s string) string {
	b := []rune(s)
	for i, r := range b {
		switch {
		case r >= 'a' && r < 'z', r >= 'A' && r < 'Z', r >= '0' && r < '9':
			b[i] = r + 1
		case r == 'z' || r == 'Z' || r == '9':
			b[i] = r - 1
		case r == ' ':
			b[i] = '_'
		}
	}
	return string(b)
}

func damagedBefore(i int) {
	good := build.Mluc([]build.MlucRec{{Lang: [2]byte{'f', 'r'}, Country: [2]byte{'F', 'R'}, Text: "Ancien scanner"}, {Lang: [2]byte{'e', 'n'}, Country: [2]byte{'G', 'B'}, Text: "Old Scanner"}, {Lang: [2]byte{'d', 'e'}, Country: [2]byte{'D', 'E'}, Text: "Alter Scanner"}}, nil, nil, 0)
	var tag []byte
	switch i % 5 {
	case 0: // the last record's length runs past the tag
		tag = append([]byte(nil), good...)
		binary.BigEndian.PutUint32(tag[16+2*12+4:], 0x7FFFFFF0)
	case 1: // the second record's offset lies outside
		tag = append([]byte(nil), good...)
		binary.BigEndian.PutUint32(tag[16+12+8:], uint32(len(tag)+50))
	case 2: // cut in the middle of the record table
		tag = good[:16+12+6]
	case 3: // a text description whose count exceeds the data
		tag = build.TextDesc("short")
		binary.BigEndian.PutUint32(tag[8:], 4000)
	default: // odd string length
		tag = append([]byte(nil), good...)
		binary.BigEndian.PutUint32(tag[16+4:], 7)
	}
	prof := build.SimpleProfile(tag, i%3*8)
	ev.Guard(func() {
		if p, err := icc.NewProfileReader(bytes.NewReader(prof)).ReadProfile(); err == nil && p != nil {
			p.Description()
			p.Description()
		}
	})
}

const descSig = 0x64657363

func two(s string) [2]byte {
	var b [2]byte
	copy(b[:], s)
	return b
}

func units(s string) []uint16 { return utf16.Encode([]rune(s)) }

func (c Case) build() (profile []byte, descData []byte) {
	p := build.ICC{Header: build.DefaultHeader(), Order: c.Order, Pad: c.Pad, TablePad: c.TablePad, Trailer: c.Trailer}
	if len(c.Hdr) == 128 {
		copy(p.Header[8:36], c.Hdr[8:36])
		copy(p.Header[40:100], c.Hdr[40:100])
	}
	for i, t := range c.Tags {
		var d []byte
		if t.Sig == descSig {
			switch c.DescKind {
			case "v2":
				d = build.TextDesc(c.ASCII)
				if c.Unicode != "" || c.Script != "" || c.ASCIICount0 {
					ab := append([]byte(c.ASCII), 0)
					if c.ASCIICount0 && c.ASCII == "" {
						ab = nil
					}
					var uc []byte
					var ucCount uint32
					if c.Unicode != "" {
						for _, u := range append(units(c.Unicode), 0) {
							uc = append(uc, byte(u>>8), byte(u))
						}
						ucCount = uint32(len(uc) / 2)
					}
					sc := make([]byte, 67)
					n := copy(sc, c.Script)
					scCount := uint8(0)
					if n > 0 {
						scCount = uint8(n + 1)
					}
					d = build.TextDescFull(uint32(len(ab)), ab, 0x656E5553, ucCount, uc, 0, scCount, sc)
				}
			case "v4":
				recs := make([]build.MlucRec, len(c.Recs))
				share := make([]int, len(c.Recs))
				skip := make([]int, len(c.Recs))
				for k, r := range c.Recs {
					recs[k] = build.MlucRec{Lang: two(r.Lang), Country: two(r.Country), Text: r.Text}
					share[k], skip[k] = r.Share, r.Skip
				}
				d = build.MlucSkip(recs, c.StrOrder, share, skip, c.Gap)
			}
			descData = d
		} else {
			switch t.Kind {
			case "desc":
				d = build.TextDesc(fmt.Sprintf("NOT the description (tag %d)", i))
			case "mluc":
				d = build.Mluc([]build.MlucRec{{Lang: [2]byte{'e', 'n'}, Country: [2]byte{'U', 'S'}, Text: fmt.Sprintf("not the description %d", i)},
					{Lang: [2]byte{'d', 'e'}, Country: [2]byte{'D', 'E'}, Text: "nicht die Beschreibung"}}, nil, nil, 0)
			case "text":
				d = append([]byte("text\x00\x00\x00\x00"), []byte(fmt.Sprintf("Copyright tag %d\x00", i))...)
			default:
				d = make([]byte, t.Len)
				copy(d, "data\x00\x00\x00\x00")
				for k := 8; k < len(d); k++ {
					d[k] = byte(k*31 + i)
				}
			}
		}
		p.Tags = append(p.Tags, build.ICCTag{Sig: t.Sig, Data: d, Share: t.Share})
	}
	b, _ := p.Bytes()
	return b, descData
}

// expected description set
func (c Case) expected() (set []string, any bool) {
	switch c.DescKind {
	case "v2":
		return []string{c.ASCII}, true
	case "v4":
		// effective text of each record (sharing records take the shared string's suffix)
		text := func(i int) string {
			r := c.Recs[i]
			if r.Share >= 0 {
				u := units(c.Recs[r.Share].Text)
				if r.Skip > 0 && r.Skip <= len(u) {
					u = u[r.Skip:]
				}
				return string(utf16.Decode(u))
			}
			return r.Text
		}
		var en, all []string
		for i, r := range c.Recs {
			all = append(all, text(i))
			if r.Lang == "en" {
				en = append(en, text(i))
			}
		}
		if len(en) > 0 {
			return en, true
		}
		return all, true
	}
	return nil, false
}

func classes(c Case) []string {
	var cl []string
	if len(c.Tags) == 0 {
		cl = append(cl, "zero-tags")
	}
	if c.DescKind == "v4" {
		if len(c.Recs) >= 2 {
			cl = append(cl, "multi-record")
		}
		if c.Gap > 0 {
			cl = append(cl, "string-gap")
		}
		for i, r := range c.Recs {
			if r.Share >= 0 {
				cl = append(cl, "shared-string")
				break
			}
			_ = i
		}
		if c.StrOrder != nil {
			for i, v := range c.StrOrder {
				if v != i {
					cl = append(cl, "strings-reordered")
					break
				}
			}
		}
	}
	own := 0
	for _, t := range c.Tags {
		if t.Share >= 0 {
			cl = append(cl, "shared-block")
			break
		}
	}
	for _, t := range c.Tags {
		if t.Share < 0 {
			own++
		}
	}
	for i, v := range c.Order {
		// table order of own-block tags
		k := 0
		idx := -1
		for ti, t := range c.Tags {
			if t.Share < 0 {
				if k == i {
					idx = ti
				}
				k++
			}
		}
		if idx != v {
			cl = append(cl, "data-order-differs")
			break
		}
	}
	for _, p := range c.Pad {
		if p > 0 {
			cl = append(cl, "padded")
			break
		}
	}
	if c.TablePad > 0 {
		cl = append(cl, "table-pad")
	}
	return cl
}

func check(c Case) (kind, what string) {
	if c.After > 0 {
		damagedBefore(c.After - 1)
	}
	if c.Twin {
		t := c
		t.Twin = false
		t.ASCII, t.Unicode, t.Script = twinText(c.ASCII), twinText(c.Unicode), twinText(c.Script)
		t.Recs = append([]Rec(nil), c.Recs...)
		for i := range t.Recs {
			t.Recs[i].Text = twinText(t.Recs[i].Text)
		}
		tp, _ := t.build()
		ev.Guard(func() {
			if p, err := icc.NewProfileReader(bytes.NewReader(tp)).ReadProfile(); err == nil && p != nil {
				p.Description()
			}
		})
	}
	prof, _ := c.build()
	var p *icc.Profile
	var err error
	var pn bool
	var msg string
	switch c.Via {
	case "png":
		file, _ := build.PNG{W: 3, H: 2, Depth: 8, ColorType: 2, Pre: []build.Chunk{build.ICCPChunk("prof", prof, 6)}, IDAT: []byte{1, 2, 3}}.Bytes()
		pn, msg = ev.Guard(func() {
			md, _, lerr := pngmeta.Load(bytes.NewReader(file))
			if lerr != nil {
				err = fmt.Errorf("pngmeta.Load: %w", lerr)
				return
			}
			p, err = md.ICCProfile()
		})
	case "jpeg":
		sizes := []int{len(prof)/2 + 1}
		if len(prof) > 100000 { // large profiles need more than two chunks (a chunk holds at most 65519 bytes)
			sizes = nil
			for r := len(prof); r > 60000; r -= 60000 {
				sizes = append(sizes, 60000)
			}
		}
		segs := append([]build.Seg{{Marker: 0xE0, Data: []byte("JFIF\x00\x01\x01\x00\x00\x01\x00\x01\x00\x00")}}, build.ICCSegs(prof, sizes)...)
		segs = append(segs, build.Seg{Marker: 0xC0, Data: build.SOF(8, 2, 3, [][3]byte{{1, 0x11, 0}})})
		file, _ := build.JPEG{Segs: segs, SOS: []byte{1, 1, 0, 0, 63, 0}, Entropy: []byte{1, 2, 3}}.Bytes()
		pn, msg = ev.Guard(func() {
			md, _, lerr := jpegmeta.Load(bytes.NewReader(file))
			if lerr != nil {
				err = fmt.Errorf("jpegmeta.Load: %w", lerr)
				return
			}
			p, err = md.ICCProfile()
		})
	case "metadata-reused":
		// one metadata value that first held another profile (and was asked for it) and is then given this one
		other := build.SimpleProfile(build.TextDesc("the profile this value held before"), 40)
		pn, msg = ev.Guard(func() {
			md := &meta.Data{}
			md.SetICCProfileData(other)
			if p0, e0 := md.ICCProfile(); e0 == nil && p0 != nil {
				p0.Description()
			}
			md.SetICCProfileData(prof)
			p, err = md.ICCProfile()
		})
	case "buffer-reused":
		// the profile is read from a *bytes.Buffer which the caller then reuses for the next profile (a different one,
		// of about the same size) before asking the first profile for its description: a returned Profile owns its data
		other := build.SimpleProfile(build.Mluc([]build.MlucRec{{Lang: [2]byte{'e', 'n'}, Country: [2]byte{'U', 'S'}, Text: "another profile " + strings.Repeat("#", len(prof)/3)}}, nil, nil, 0), len(prof)/2)
		pn, msg = ev.Guard(func() {
			buf := bytes.NewBuffer(append([]byte(nil), prof...))
			p, err = icc.NewProfileReader(buf).ReadProfile()
			buf.Reset()
			buf.Write(other)
			if p2, e2 := icc.NewProfileReader(buf).ReadProfile(); e2 == nil {
				p2.Description()
			}
			buf.Reset()
			buf.Write(bytes.Repeat([]byte{0xEE}, len(prof)+len(other)))
		})
	case "positioned":
		// the profile sits somewhere inside a standard-library reader (after container bytes, or after another
		// profile): reading starts at the reader's current position, wherever that is
		h := int(ev.Hash(prof) % 997)
		kind := []string{"bytes.Reader", "strings.Reader", "bytes.Buffer", "bufio.Reader", "io.SectionReader"}[h%5]
		prefix := []int{1, 36, 128, 4096, len(prof), 3900, 3964, 4000, 4092}[(h/5)%9]
		body := prof
		if h%2 == 0 {
			body = append(append([]byte(nil), prof...), bytes.Repeat([]byte("more of the stream "), 400)...) // the profile is not the end of the stream
		}
		pn, msg = ev.Guard(func() {
			r, _, cleanup := src.Std(kind, prefix, body, "")
			defer cleanup()
			br, ok := r.(interface {
				io.Reader
				io.ByteReader
			})
			if !ok {
				br = bufio.NewReader(r)
			}
			p, err = icc.NewProfileReader(br).ReadProfile()
		})
	default:
		pn, msg = ev.Guard(func() { p, err = icc.NewProfileReader(bytes.NewReader(prof)).ReadProfile() })
	}
	if pn {
		return "panic", msg
	}
	if err != nil || p == nil {
		k := "read"
		if len(c.Tags) == 0 {
			k = "read-zero-tags"
		}
		return k, fmt.Sprintf("well-formed profile (%d tags, via %s) could not be read: %v", len(c.Tags), c.Via, err)
	}
	set, has := c.expected()
	if !has {
		return "", ""
	}
	var got string
	var derr error
	if pn, msg := ev.Guard(func() { got, derr = p.Description() }); pn {
		return "panic-description", msg
	}
	if derr != nil {
		k := "description-error"
		if c.DescKind == "v4" && len(c.Recs) >= 2 {
			k = "mluc-multi"
		}
		return k, fmt.Sprintf("Description() failed on a well-formed %s tag (%d records): %v", c.DescKind, len(c.Recs), derr)
	}
	// (Description() is deliberately NOT required to give the same string twice: with several English records the
	// property allows any of them, and the library picks one by map iteration.)
	// a profile read earlier must still describe itself correctly after this one has been read
	if prevProfile != nil {
		pd, perr := prevProfile.Description()
		ok := perr == nil
		if ok {
			ok = false
			for _, s := range prevSet {
				if s == pd {
					ok = true
				}
			}
		}
		pp := prevProfile
		prevProfile, prevSet = nil, nil
		_ = pp
		if !ok {
			return "stale-profile", fmt.Sprintf("the profile read before this one now describes itself as %q (error %v); allowed: %s", trunc(pd), perr, truncSet(prevSetCopy))
		}
	}
	for _, s := range set {
		if s == got {
			prevProfile, prevSet, prevSetCopy = p, set, set
			return "", ""
		}
	}
	k := "description-" + c.DescKind
	if c.DescKind == "v4" {
		enEmpty := false
		for _, r := range c.Recs {
			if r.Lang == "en" && r.Text == "" && r.Share < 0 {
				enEmpty = true
			}
		}
		switch {
		case len(set) == 1 && set[0] == "" && enEmpty:
			k = "mluc-empty-en"
		case len(c.Recs) >= 2 || c.Gap > 0:
			k = "mluc-multi"
		}
	}
	return k, fmt.Sprintf("Description() = %q; allowed: %s (kind %s, %d records, via %s)", trunc(got), truncSet(set), c.DescKind, len(c.Recs), c.Via)
}

// the previously read profile and its allowed descriptions (staleness check)
var prevProfile *icc.Profile
var prevSet, prevSetCopy []string

func trunc(s string) string {
	if len(s) > 60 {
		return s[:60] + "…"
	}
	return s
}

func truncSet(set []string) string {
	var o []string
	for i, s := range set {
		if i == 4 {
			o = append(o, "…")
			break
		}
		o = append(o, fmt.Sprintf("%q", trunc(s)))
	}
	return "{" + strings.Join(o, ", ") + "}"
}

func genText(rt *rapid.T, label string) string {
	n := rapid.SampledFrom([]int{0, 1, 2, 5, 12, 40, 200, 2000}).Draw(rt, label+"maxlen")
	k := rapid.IntRange(0, n).Draw(rt, label+"len")
	kind := rapid.IntRange(0, 2).Draw(rt, label+"charset")
	var r []rune
	for len(units(string(r))) < k {
		switch kind {
		case 0:
			r = append(r, rune(rapid.IntRange(0x20, 0x7E).Draw(rt, label+"c")))
		case 1:
			v := rapid.IntRange(0xA0, 0xFFFD).Draw(rt, label+"c")
			if v >= 0xD800 && v <= 0xDFFF {
				v = 0x4E2D
			}
			r = append(r, rune(v))
		default:
			if rapid.Bool().Draw(rt, label+"astral") && len(units(string(r)))+2 <= k {
				r = append(r, rune(rapid.IntRange(0x10000, 0x10FFFF).Draw(rt, label+"c")))
			} else {
				r = append(r, rune(rapid.IntRange(0x20, 0x7E).Draw(rt, label+"c")))
			}
		}
	}
	// a sixth of the non-empty strings begin or end with a character that text-cleaning code likes to drop: a byte
	// order mark / zero-width no-break space, other zero-width and direction marks, spaces, a noncharacter
	if len(r) > 0 && kind != 0 && rapid.IntRange(0, 5).Draw(rt, label+"edgechar") == 0 {
		e := rune(rapid.SampledFrom([]int{0xFEFF, 0xFEFF, 0x200B, 0x200E, 0x00A0, 0x3000, 0xFFFD, 0xFFFF, 0x2028}).Draw(rt, label+"edge"))
		if rapid.Bool().Draw(rt, label+"edgeatend") {
			r[len(r)-1] = e
		} else {
			r[0] = e
		}
	}
	return string(r)
}

var langs = []string{"en", "de", "fr", "ja", "zh", "es", "nl", "\x00\x00", "EN", "e\x00"}

func gen(rt *rapid.T) Case {
	var c Case
	n := rapid.IntRange(0, 64).Draw(rt, "ntags")
	if rapid.IntRange(0, 3).Draw(rt, "fewtags") > 0 && n > 6 {
		n = n % 7
	}
	if rapid.IntRange(0, 99).Draw(rt, "manytags") == 0 {
		counts := []int{255, 256, 257, 300} // counts around the sizes of bytes and small tables
		if ev.Thorough() {
			counts = append(counts, 1000, 4097)
		}
		n = rapid.SampledFrom(counts).Draw(rt, "tagcount")
	}
	c.DescKind = rapid.SampledFrom([]string{"v2", "v4", "v4", "v4", ""}).Draw(rt, "desckind")
	if n == 0 {
		c.DescKind = ""
	}
	descPos := -1
	if c.DescKind != "" {
		descPos = rapid.IntRange(0, n-1).Draw(rt, "descpos")
	}
	// a tenth of the profiles are crowds: many tags that all reference one (small) element - legal, and the profile
	// is then much smaller than any per-tag size estimate
	shareAll := rapid.IntRange(0, 9).Draw(rt, "shareall") == 0
	if shareAll && c.DescKind != "" {
		n = rapid.IntRange(20, 64).Draw(rt, "crowdtags")
		descPos = rapid.SampledFrom([]int{0, 0, n - 1, n / 2}).Draw(rt, "crowddescpos")
	}
	used := map[uint32]bool{descSig: true}
	for i := 0; i < n; i++ {
		if i == descPos {
			c.Tags = append(c.Tags, Tag{Sig: descSig, Share: -1})
			continue
		}
		sig := uint32(0x41000000) + uint32(rapid.IntRange(0, 1<<20).Draw(rt, "sig"))
		if rapid.IntRange(0, 2).Draw(rt, "knownsig") > 0 {
			sig = sigOf(rapid.SampledFrom(knownSigs).Draw(rt, "known"))
		}
		for used[sig] {
			sig = uint32(0x41000000) + uint32(rapid.IntRange(0, 1<<20).Draw(rt, "sig2"))
		}
		used[sig] = true
		t := Tag{Sig: sig, Len: rapid.IntRange(8, 40).Draw(rt, "taglen"), Share: -1,
			Kind: rapid.SampledFrom([]string{"", "", "desc", "mluc", "text"}).Draw(rt, "fillerkind")}
		if i > 0 && (rapid.IntRange(0, 4).Draw(rt, "tagshare") == 0 || shareAll) {
			j := rapid.IntRange(0, i-1).Draw(rt, "sharewith")
			if shareAll {
				j = 0 // every tag references the first tag's element (possibly the description itself)
			}
			if c.Tags[j].Share >= 0 {
				j = c.Tags[j].Share
			}
			t.Share = j
		}
		c.Tags = append(c.Tags, t)
	}
	var own []int
	for i, t := range c.Tags {
		if t.Share < 0 {
			own = append(own, i)
		}
	}
	if len(own) > 0 {
		switch rapid.IntRange(0, 2).Draw(rt, "layout") {
		case 0:
			c.Order = own
		case 1:
			for i := len(own) - 1; i >= 0; i-- {
				c.Order = append(c.Order, own[i])
			}
		default:
			c.Order = rapid.Permutation(own).Draw(rt, "order")
		}
		padded := rapid.Bool().Draw(rt, "padded")
		for range own {
			pd := 0
			if padded {
				pd = rapid.IntRange(0, 3).Draw(rt, "pad")
			}
			c.Pad = append(c.Pad, pd)
		}
	}
	c.TablePad = rapid.SampledFrom([]int{0, 0, 1, 2, 3}).Draw(rt, "tablepad")
	c.Trailer = rapid.SampledFrom([]int{0, 0, 1, 4}).Draw(rt, "trailer")
	if rapid.Bool().Draw(rt, "hdrfields") {
		h := build.DefaultHeader()
		c.Hdr = h[:]
		vgen.HeaderFields(rt, "hdr", c.Hdr)
		if rapid.Bool().Draw(rt, "hdrmisc") {
			copy(c.Hdr[44:64], vgen.Payload(rt, "hdrdevice", 20)) // flags, manufacturer, model, attributes
			copy(c.Hdr[80:100], vgen.Payload(rt, "hdrcreator", 20))
		}
	}
	switch c.DescKind {
	case "v2":
		c.ASCII = genText(rt, "ascii")
		// v2 ASCII only
		b := []byte(c.ASCII)
		for i := range b {
			if b[i] < 0x20 || b[i] > 0x7E {
				b[i] = 'x'
			}
		}
		c.ASCII = string(b)
		if rapid.Bool().Draw(rt, "v2unicode") {
			c.Unicode = "Unicode part: " + genText(rt, "unicode")
			if rapid.Bool().Draw(rt, "v2script") {
				c.Script = "ScriptCode part"
			}
			if rapid.IntRange(0, 2).Draw(rt, "v2blankascii") == 0 {
				c.ASCII = ""
				c.ASCIICount0 = rapid.Bool().Draw(rt, "v2count0")
			}
		}
	case "v4":
		nr := rapid.SampledFrom([]int{1, 1, 2, 2, 3, 5, 40, 40, 300}).Draw(rt, "nrecsmax")
		nr = rapid.IntRange(1, nr).Draw(rt, "nrecs")
		for i := 0; i < nr; i++ {
			r := Rec{Lang: rapid.SampledFrom(langs).Draw(rt, "lang"), Country: rapid.SampledFrom([]string{"US", "GB", "DE", "\x00\x00", "JP"}).Draw(rt, "country"), Share: -1}
			if i > 0 && rapid.IntRange(0, 4).Draw(rt, "recshare") == 0 {
				j := rapid.IntRange(0, i-1).Draw(rt, "recsharewith")
				if c.Recs[j].Share >= 0 {
					j = c.Recs[j].Share
				}
				r.Share = j
				u := units(c.Recs[j].Text)
				if len(u) > 1 && rapid.Bool().Draw(rt, "overlap") {
					k := rapid.IntRange(1, len(u)-1).Draw(rt, "skip")
					if u[k] >= 0xDC00 && u[k] <= 0xDFFF { // do not split a surrogate pair
						k++
					}
					if k < len(u) {
						r.Skip = k
					}
				}
			} else {
				r.Text = genText(rt, "text")
			}
			c.Recs = append(c.Recs, r)
		}
		switch rapid.IntRange(0, 2).Draw(rt, "strlayout") {
		case 0:
		case 1:
			for i := nr - 1; i >= 0; i-- {
				c.StrOrder = append(c.StrOrder, i)
			}
		default:
			idx := make([]int, nr)
			for i := range idx {
				idx[i] = i
			}
			c.StrOrder = rapid.Permutation(idx).Draw(rt, "strorder")
		}
		c.Gap = rapid.SampledFrom([]int{0, 0, 2, 4}).Draw(rt, "gap")
	}
	if rapid.IntRange(0, 5).Draw(rt, "twinfirst") == 0 {
		c.Twin = true
		if len(c.Hdr) != 128 {
			h := build.DefaultHeader()
			c.Hdr = h[:]
		}
		copy(c.Hdr[84:100], vgen.Payload(rt, "twinid", 16))
		c.Hdr[84] |= 1 // a profile ID that is not all zero
	}
	if rapid.IntRange(0, 5).Draw(rt, "afterdamaged") == 0 {
		c.After = rapid.IntRange(1, 15).Draw(rt, "damaged")
	}
	c.Via = rapid.SampledFrom([]string{"reader", "reader", "positioned", "positioned", "png", "jpeg", "buffer-reused", "metadata-reused"}).Draw(rt, "via")
	return c
}

func TestC17(t *testing.T) {
	if ev.Replaying() != nil {
		var c Case
		if err := ev.ReplayCase(&c); err != nil {
			t.Fatal(err)
		}
		if k, w := check(c); k != "" {
			ev.Fail(t, "desc", k, w, c)
		}
		fmt.Println("REPLAY case passed")
		return
	}
	ev.Rule("rapid grammar-built ICC profiles: 0-64 tags with distinct signatures, 'desc' at a random table position or absent, data blocks laid out in table/reverse/random order, blocks shared between tags, 0-3 padding bytes between blocks and after the table, trailer bytes; v2 textDescription (0-2000 printable ASCII; half with different text in the Unicode and ScriptCode parts, the ASCII part sometimes empty) or v4 mluc with 1-40 records (languages incl. 0/1/several 'en'), strings in table/reverse/random order, shared, overlapping (suffix), with gaps; text from ASCII, BMP and surrogate-pair ranges; read through icc.NewProfileReader from offset 0 or from a standard reader positioned after container bytes, or embedded in a PNG (iCCP) / JPEG (2 APP2 chunks) through meta.Data.ICCProfile, or from a *bytes.Buffer that is reused for another profile and then overwritten before the description is asked for. A sixth of the cases directly follow Description() on the profile's twin (same header and profile ID, same sizes, another text of the same length); a sixth directly follow a Description() call on a damaged profile (a record pointing outside its tag, a cut record table, an overlong text count), whose answer is ignored. non-trivial = distinct case with >= 2 mluc records, a string not immediately after its record, data order != table order, shared or padded blocks, or zero tags")
	ev.Assume("harness ICC/mluc builder; Description must be a member of the allowed set (any 'en' record, else any record)")
	// deterministic corner cases first
	fixed := []Case{
		{Via: "reader"}, // zero tags
		{Tags: []Tag{{Sig: descSig, Share: -1}}, DescKind: "v2", ASCII: "", Order: []int{0}, Pad: []int{0}, Via: "reader"},
		{Tags: []Tag{{Sig: descSig, Share: -1}}, DescKind: "v2", ASCII: "", Unicode: "Unicode part", Script: "ScriptCode part", Order: []int{0}, Pad: []int{0}, Via: "reader"},
		{Tags: []Tag{{Sig: descSig, Share: -1}}, DescKind: "v2", ASCII: "", ASCIICount0: true, Unicode: "Unicode part", Order: []int{0}, Pad: []int{0}, Via: "reader"},
		{Tags: []Tag{{Sig: descSig, Share: -1}}, DescKind: "v2", ASCII: "ASCII part", Unicode: "Unicode part", Script: "ScriptCode part", Order: []int{0}, Pad: []int{0}, Via: "reader"},
		{Tags: []Tag{{Sig: descSig, Share: -1}}, DescKind: "v4", Recs: []Rec{{Lang: "de", Country: "DE", Text: "Anzeige", Share: -1}, {Lang: "en", Country: "US", Text: "Display", Share: -1}}, Order: []int{0}, Pad: []int{0}, Via: "reader"},
		{Tags: []Tag{{Sig: descSig, Share: -1}}, DescKind: "v4", Recs: []Rec{{Lang: "en", Country: "US", Text: "", Share: -1}, {Lang: "fr", Country: "FR", Text: "Écran", Share: -1}}, Order: []int{0}, Pad: []int{0}, Via: "reader"},
		{Tags: []Tag{{Sig: descSig, Share: -1}}, DescKind: "v4", Recs: []Rec{{Lang: "ja", Country: "JP", Text: "ディスプレイ 𝒫3", Share: -1}}, Gap: 4, Order: []int{0}, Pad: []int{0}, Via: "reader"},
	}
	for _, c := range fixed {
		ev.Eval(1)
		ev.NT(ev.Hash("fixed", fmt.Sprintf("%+v", c)))
		if k, w := check(c); k != "" {
			ev.Violation("desc", k, w, c)
		}
	}
	ev.Sample(fixed[2])
	ev.RapidChecks(ev.Pick(4000, 200000))
	ev.RapidSeed(17)
	var early []Case
	rapid.Check(t, func(rt *rapid.T) {
		c := gen(rt)
		ev.Eval(1)
		cl := classes(c)
		if len(cl) > 0 {
			ev.NT(ev.Hash(fmt.Sprintf("%+v", c)))
		}
		for _, x := range cl {
			ev.Class(x, 1)
		}
		ev.Class("kind-"+c.DescKind+"-via-"+c.Via, 1)
		if ev.SampleN() < 4 && c.DescKind == "v4" && len(c.Recs) > 1 {
			ev.Sample(c)
		}
		if len(early) < 300 && len(c.Tags) < 70 {
			early = append(early, c)
		}
		if k, w := check(c); k != "" {
			ev.Fail(rt, "desc", k, w, c)
		}
	})
	// the first 300 profiles once more after thousands of others (see C12)
	for _, c := range early {
		ev.Eval(1)
		if k, w := check(c); k != "" {
			ev.Violation("desc", k, "read again after many other profiles: "+w, c)
			break
		}
	}
	if ev.Violations() > 0 {
		t.Fail()
	}
}
