// C09 — hostile input cannot crash the caller, hang, or balloon memory.
package c09

import (
	"bytes"
	"compress/flate"
	"compress/zlib"
	"fmt"
	"runtime"
	"runtime/debug"
	"strings"
	"testing"
	"time"

	"github.com/mandykoh/prism/meta/icc"
	"pgregory.net/rapid"

	"verif/internal/build"
	"verif/internal/ev"
	"verif/internal/gen"
	"verif/internal/ld"
	"verif/internal/mut"
	"verif/internal/seeds"
)

func TestMain(m *testing.M) { ev.Main(m, "C09", "exploration") }

type Case struct {
	Desc   string `json:"desc"`
	Target string `json:"target"` // png jpeg webp auto icc
	Data   []byte `json:"data"`
}

// allocation bound: A + B*len(input)
const boundA = 1 << 20

var boundB = map[string]uint64{"png": 6000, "auto": 6000, "jpeg": 32, "webp": 32, "icc": 64}

// time budget: grows with the input size, not with numbers written in the input
func timeBudget(n int) time.Duration {
	return time.Second + time.Duration(n>>20)*time.Second
}

type result struct {
	panicMsg string
	stage    string
	alloc    uint64
	elapsed  time.Duration
	hung     bool
	accepted bool
	neither  string // set when a call came back with neither a value nor an error
	stack    uint64 // growth of goroutine stack memory across the call
}

// exercise runs the whole accessor chain for one input on its own goroutine and measures it.
func exercise(c Case) result {
	var r result
	done := make(chan struct{})
	var m0, m1 runtime.MemStats
	runtime.ReadMemStats(&m0)
	start := time.Now()
	go func() {
		defer close(done)
		defer func() {
			if x := recover(); x != nil {
				r.panicMsg = fmt.Sprintf("%v\n%s", x, debug.Stack())
			}
		}()
		var p *icc.Profile
		if c.Target == "icc" {
			r.stage = "ReadProfile"
			p, _ = icc.NewProfileReader(bytes.NewReader(c.Data)).ReadProfile()
		} else {
			r.stage = "Load"
			md, strm, err := ld.Loaders[c.Target](bytes.NewReader(c.Data))
			r.accepted = err == nil
			if md == nil && err == nil {
				r.neither = "Load returned nil metadata and a nil error"
			} else if strm == nil {
				r.neither = "Load returned a nil stream"
			}
			if md != nil {
				r.stage = "ICCProfile"
				p, _ = md.ICCProfile()
				_, _ = md.ICCProfileData()
				// the accessors are asked again: whatever the first call left behind (a memo, a lock, an error)
				r.stage = "ICCProfile (second call)"
				if p2, _ := md.ICCProfile(); p == nil {
					p = p2
				}
				_, _ = md.ICCProfileData()
			}
		}
		if p != nil {
			r.accepted = true
			r.stage = "Description"
			_, _ = p.Description()
			_ = p.Header.Version.String()
			r.stage = "Description (second call)"
			_, _ = p.Description()
		}
		r.stage = "done"
	}()
	select {
	case <-done:
	case <-time.After(timeBudget(len(c.Data))):
		r.hung = true
	}
	r.elapsed = time.Since(start)
	runtime.ReadMemStats(&m1)
	r.alloc = m1.TotalAlloc - m0.TotalAlloc
	if m1.StackInuse > m0.StackInuse {
		r.stack = m1.StackInuse - m0.StackInuse
	}
	if r.alloc > 64<<20 {
		// give a balloon back at once so that one finding cannot snowball into an out-of-memory kill
		runtime.GC()
		debug.FreeOSMemory()
	}
	return r
}

func family(c Case) string {
	if c.Target == "icc" {
		return "icc"
	}
	return c.Target
}

// slowest: the largest share of its time budget any call used (reported in the evidence: how far the budget is
// from what conforming behaviour needs)
var ampSeconds float64
var phaseStart time.Time
var phaseSeconds = map[string]float64{}

func phase(name string) {
	phaseSeconds[name] = time.Since(phaseStart).Seconds()
	phaseStart = time.Now()
}

var slowestShare float64
var slowestDesc string

func check(c Case) (kind, what string, r result) {
	ev.Journal("hostile", c)
	r = exercise(c)
	if sh := float64(r.elapsed) / float64(timeBudget(len(c.Data))); sh > slowestShare {
		slowestShare, slowestDesc = sh, fmt.Sprintf("%v for %d bytes: %.120s", r.elapsed, len(c.Data), c.Desc)
	}
	k := family(c) + "/"
	if r.hung {
		// a slow machine is not a hang: the call must exceed its budget three times in a row to be called one
		for i := 0; i < 2 && r.hung; i++ {
			if r2 := exercise(c); !r2.hung {
				r = r2
			}
		}
	}
	switch {
	case r.hung:
		return k + "hang", fmt.Sprintf("%s on %d input bytes did not return within %v (stage %s) (%s)", c.Target, len(c.Data), timeBudget(len(c.Data)), r.stage, c.Desc), r
	case r.panicMsg != "":
		return k + "panic", fmt.Sprintf("panic escaped to the caller at stage %s: %s (%s)", r.stage, r.panicMsg, c.Desc), r
	case r.neither != "":
		// "returns normally with a value or an error": a caller that checks err and then uses the value crashes
		return k + "neither", fmt.Sprintf("%s: %s (%s)", c.Target, r.neither, c.Desc), r
	}
	// stack memory counts as memory: parsing must not keep a frame (or more) per input byte
	if sl := uint64(8<<20) + 4*uint64(len(c.Data)); r.stack > sl {
		if r2 := exercise(c); r2.stack > sl {
			return k + "stack", fmt.Sprintf("%s grew the goroutine stack by %d bytes for %d input bytes (bound 8 MiB + 4*len = %d) (%s)", c.Target, r2.stack, len(c.Data), sl, c.Desc), r
		}
	}
	limit := uint64(boundA) + boundB[c.Target]*uint64(len(c.Data))
	if r.alloc > limit {
		// confirm: allocation accounting is process-wide, so re-measure once to rule out unrelated background allocation
		r2 := exercise(c)
		if r2.alloc > limit {
			return k + "alloc", fmt.Sprintf("%s allocated %d bytes for %d input bytes (bound %d + %d*len = %d) (%s)", c.Target, r2.alloc, len(c.Data), boundA, boundB[c.Target], limit, c.Desc), r
		}
	}
	return "", "", r
}

func signatureOK(target string, d []byte) bool {
	png := len(d) >= 8 && bytes.Equal(d[:8], build.PNGSig)
	jpg := len(d) >= 2 && d[0] == 0xFF && d[1] == 0xD8
	webp := len(d) >= 12 && string(d[:4]) == "RIFF" && string(d[8:12]) == "WEBP"
	switch target {
	case "png":
		return png
	case "jpeg":
		return jpg
	case "webp":
		return webp
	case "auto":
		return png || jpg || webp
	}
	return len(d) >= 128 && string(d[36:40]) == "acsp"
}

func targetsFor(kind string) []string {
	switch kind {
	case "PNG":
		return []string{"png", "auto"}
	case "JPEG":
		return []string{"jpeg", "auto"}
	case "WebP":
		return []string{"webp", "auto"}
	case "ICC":
		return []string{"icc"}
	}
	return []string{"auto", "icc"}
}

// embedded profiles: fields of an ICC profile carried inside a container are part of the matrix too
func withEmbeddedICC(sd seeds.Seed) *build.Map {
	m := sd.Map
	if sd.Kind == "WebP" {
		if i := bytes.Index(sd.Data, []byte("ICCP")); i > 0 && i+8+132 < len(sd.Data) {
			im := build.ParseICC(sd.Data, i+8)
			mm := *m
			mm.Fields = append(append([]build.Field(nil), m.Fields...), im.Fields...)
			return &mm
		}
	}
	if sd.Kind == "JPEG" {
		if i := bytes.Index(sd.Data, []byte("ICC_PROFILE\x00\x01")); i > 0 && i+14+132 < len(sd.Data) {
			im := build.ParseICC(sd.Data, i+14)
			mm := *m
			mm.Fields = append(append([]build.Field(nil), m.Fields...), im.Fields...)
			return &mm
		}
	}
	return m
}

type recorder struct{ bad map[string]bool }

func (rc *recorder) run(c Case, nt bool) result {
	if len(rc.bad) > 0 {
		// an unlisted violation has been found: stop exploring (every further case behind the same defect may
		// cost gigabytes and seconds); listed known findings do not end the search
		return result{}
	}
	ev.Eval(1)
	k, w, r := check(c)
	if nt && signatureOK(c.Target, c.Data) {
		ev.NT(ev.Hash(c.Target, c.Data))
	}
	if k != "" && !rc.bad[k] {
		rc.bad[k] = true
		ev.Violation("hostile", k, w, c)
	}
	return r
}

// amplifiers: inputs built to maximise legitimate allocation per input byte; they show the bound is not a
// false alarm on conforming behaviour and catch super-linear behaviour
func amplifiers() []Case {
	var out []Case
	// maximal-ratio deflate streams in an iCCP chunk
	for _, n := range []int{1 << 16, 1 << 20, 8 << 20} {
		var z bytes.Buffer
		w, _ := zlib.NewWriterLevel(&z, flate.BestCompression)
		w.Write(make([]byte, n))
		w.Close()
		d, _ := build.PNG{W: 1, H: 1, Depth: 8, ColorType: 0, Pre: []build.Chunk{build.RawICCPChunk("bomb", z.Bytes())}, IDAT: []byte{0}}.Bytes()
		out = append(out, Case{Desc: fmt.Sprintf("PNG iCCP holding %d zero bytes deflated to %d", n, z.Len()), Target: "png", Data: d})
		out = append(out, Case{Desc: fmt.Sprintf("PNG iCCP holding %d zero bytes deflated to %d", n, z.Len()), Target: "auto", Data: d})
	}
	// ICC profile with very many tags (distinct signatures, all sharing one small block)
	for _, n := range []int{1000, 20000} {
		p := build.ICC{Header: build.DefaultHeader()}
		p.Tags = append(p.Tags, build.ICCTag{Sig: 0x64657363, Data: build.TextDesc("many tags"), Share: -1})
		for i := 0; i < n; i++ {
			p.Tags = append(p.Tags, build.ICCTag{Sig: 0x41000000 + uint32(i), Share: 0})
		}
		d, _ := p.Bytes()
		out = append(out, Case{Desc: fmt.Sprintf("ICC profile with %d tags", n+1), Target: "icc", Data: d})
	}
	// many tags (distinct signatures) all sharing one big data block
	for _, n := range []int{300, 3000} {
		p := build.ICC{Header: build.DefaultHeader()}
		big := make([]byte, 20*n)
		copy(big, "text\x00\x00\x00\x00")
		p.Tags = append(p.Tags, build.ICCTag{Sig: 0x63707274, Data: big, Share: -1}, build.ICCTag{Sig: 0x64657363, Data: build.TextDesc("shared block"), Share: -1})
		for i := 0; i < n; i++ {
			p.Tags = append(p.Tags, build.ICCTag{Sig: 0x42000000 + uint32(i), Share: 0})
		}
		d, _ := p.Bytes()
		out = append(out, Case{Desc: fmt.Sprintf("ICC profile with %d tags all sharing one %d-byte block", n+2, len(big)), Target: "icc", Data: d})
	}
	// mluc with many records (distinct languages), each with its own short string
	for _, n := range []int{500, 5000} {
		recs := make([]build.MlucRec, n)
		for i := range recs {
			recs[i] = build.MlucRec{Lang: [2]byte{byte('a' + i%26), byte('a' + (i/26)%26)}, Country: [2]byte{byte('A' + (i/676)%26), 'X'}, Text: "ab"}
		}
		out = append(out, Case{Desc: fmt.Sprintf("mluc with %d records, own strings", n), Target: "icc", Data: build.SimpleProfile(build.Mluc(recs, nil, nil, 0), 0)})
	}
	// mluc records that repeat a language or a whole locale, with empty and non-empty strings in every order: every
	// sequence of up to three records over {en-US, en-GB, de-DE} x {"", "Demo"} (a profile may say the same thing twice)
	{
		type opt struct {
			l, c [2]byte
			t    string
		}
		var opts []opt
		for _, lc := range [][2][2]byte{{{'e', 'n'}, {'U', 'S'}}, {{'e', 'n'}, {'G', 'B'}}, {{'d', 'e'}, {'D', 'E'}}} {
			for _, t := range []string{"", "Demo"} {
				opts = append(opts, opt{lc[0], lc[1], t})
			}
		}
		var seqs [][]int
		for a := range opts {
			seqs = append(seqs, []int{a})
			for b := range opts {
				seqs = append(seqs, []int{a, b})
				for c := range opts {
					seqs = append(seqs, []int{a, b, c})
				}
			}
		}
		for _, q := range seqs {
			var recs []build.MlucRec
			d := ""
			for _, i := range q {
				recs = append(recs, build.MlucRec{Lang: opts[i].l, Country: opts[i].c, Text: opts[i].t})
				d += fmt.Sprintf(" %s-%s:%q", opts[i].l[:], opts[i].c[:], opts[i].t)
			}
			out = append(out, Case{Desc: "mluc with records" + d, Target: "icc", Data: build.SimpleProfile(build.Mluc(recs, nil, nil, 0), 0)})
		}
	}
	// mluc with many records that all point at one long shared string (overlapping records): decoding every
	// record eagerly makes the work and the allocation quadratic in the input size
	for _, n := range []int{300, 3000} {
		recs := make([]build.MlucRec, n)
		share := make([]int, n)
		long := string(bytes.Repeat([]byte("x"), 12*n))
		for i := range recs {
			recs[i] = build.MlucRec{Lang: [2]byte{byte('a' + i%26), byte('a' + (i/26)%26)}, Country: [2]byte{byte('A' + (i/676)%26), 'Y'}, Text: long}
			share[i] = 0
		}
		share[0] = -1
		out = append(out, Case{Desc: fmt.Sprintf("mluc with %d records all sharing one %d-unit string", n, 12*n), Target: "icc", Data: build.SimpleProfile(build.Mluc(recs, nil, share, 0), 0)})
	}
	// ... and the same with what the shared string holds (ordinary text, blanks, NULs, lone surrogates) and whether an
	// English record exists varied: a fallback that inspects record after record pays for the shared string each time
	for _, fillUnit := range []string{"x", " ", "\x00", "\xd8\x00"} {
		for _, withEn := range []bool{false, true} {
			n := 6000
			unitsN := 60000
			recs := make([]build.MlucRec, n)
			share := make([]int, n)
			long := string(bytes.Repeat([]byte("y"), unitsN))
			for i := range recs {
				l0, l1 := byte('a'+i%26), byte('a'+(i/26)%26)
				if l0 == 'e' && l1 == 'n' && !withEn {
					l1 = 'q'
				}
				recs[i] = build.MlucRec{Lang: [2]byte{l0, l1}, Country: [2]byte{byte('A' + (i/676)%26), 'Z'}, Text: long}
				share[i] = 0
			}
			share[0] = -1
			tag := build.Mluc(recs, nil, share, 0)
			// overwrite the stored string (the tail of the tag) with the fill unit, UTF-16BE
			fu := []byte(fillUnit)
			if len(fu) == 1 {
				fu = []byte{0, fu[0]}
			}
			for k := len(tag) - 2*unitsN; k+1 < len(tag); k += 2 {
				tag[k], tag[k+1] = fu[0], fu[1]
			}
			out = append(out, Case{Desc: fmt.Sprintf("mluc with %d records (English record: %v) all sharing one %d-unit string of %q", n, withEn, unitsN, fillUnit), Target: "icc", Data: build.SimpleProfile(tag, 0)})
		}
	}
	// descriptions that are long runs of one character (or of a two-character pattern) with ordinary text on both
	// sides: anything that tidies up text one step at a time is quadratic in the run
	for _, fill := range []string{" ", "\t", "\n", "\r\n", "a ", "\x00", "  x"} {
		n := 150000 / len(fill)
		text := "Display" + strings.Repeat(fill, n) + "Calibrated"
		out = append(out, Case{Desc: fmt.Sprintf("v2 description: text, %d x %q, text", n, fill), Target: "icc", Data: build.SimpleProfile(build.TextDesc(text), 0)})
		out = append(out, Case{Desc: fmt.Sprintf("mluc description: text, %d x %q, text", n, fill), Target: "icc",
			Data: build.SimpleProfile(build.Mluc([]build.MlucRec{{Lang: [2]byte{'e', 'n'}, Country: [2]byte{'U', 'S'}, Text: text}}, nil, nil, 0), 0)})
	}
	// long runs of one byte value after each format's signature: anything that keeps per-byte state (recursion,
	// a growing slice) shows up as stack or heap growth, or as a crash, only for inputs of tens of MiB
	runLen := ev.Pick(20<<20, 72<<20)
	for _, b := range []byte{0xFF, 0x00} {
		run := bytes.Repeat([]byte{b}, runLen)
		for _, pre := range []struct {
			name, target string
			head         []byte
		}{
			{"JPEG SOI", "jpeg", []byte{0xFF, 0xD8}},
			{"JPEG SOI+SOF+SOS", "jpeg", []byte{0xFF, 0xD8, 0xFF, 0xC0, 0, 11, 8, 0, 1, 0, 1, 1, 1, 0x11, 0, 0xFF, 0xDA, 0, 2}},
			{"PNG signature+IHDR", "png", append(append([]byte(nil), build.PNGSig...), 0, 0, 0, 13, 'I', 'H', 'D', 'R', 0, 0, 0, 1, 0, 0, 0, 1, 8, 2, 0, 0, 0, 1, 2, 3, 4)},
			{"RIFF WEBP VP8X+ICC flag", "webp", []byte("RIFF\xff\xff\xff\x7fWEBPVP8X\x0a\x00\x00\x00\x20\x00\x00\x00\x01\x00\x00\x01\x00\x00")},
		} {
			if !ev.Thorough() && ((pre.target == "jpeg") != (b == 0xFF)) && pre.name != "JPEG SOI+SOF+SOS" {
				continue // quick: 0xFF runs for JPEG (marker fill bytes), 0x00 runs for the chunked formats
			}
			d := append(append([]byte(nil), pre.head...), run...)
			out = append(out, Case{Desc: fmt.Sprintf("%s followed by %d bytes of %#02x", pre.name, runLen, b), Target: pre.target, Data: d})
			if pre.target == "jpeg" && b == 0xFF {
				out = append(out, Case{Desc: fmt.Sprintf("%s followed by %d bytes of %#02x", pre.name, runLen, b), Target: "auto", Data: d})
			}
		}
	}
	// very many small elements: per-element work that grows with the number of elements already seen (a linear
	// search, a re-scan, a copy of what was collected so far) becomes seconds at these counts, while each input
	// stays a few MiB at most
	{
		n := 150000
		var pre []build.Chunk
		for i := 0; i < n; i++ {
			pre = append(pre, build.Chunk{Type: "tEXt", Data: []byte{byte('a' + i%26)}})
		}
		d, _ := build.PNG{W: 1, H: 1, Depth: 8, ColorType: 0, Pre: append(pre, build.ICCPChunk("p", build.SimpleProfile(build.TextDesc("after many chunks"), 0), 6)), IDAT: []byte{0}}.Bytes()
		out = append(out, Case{Desc: fmt.Sprintf("PNG with %d one-byte tEXt chunks before iCCP", n), Target: "png", Data: d}, Case{Desc: fmt.Sprintf("PNG with %d one-byte tEXt chunks before iCCP", n), Target: "auto", Data: d})
		var many []build.Chunk
		small := build.ICCPChunk("p", build.SimpleProfile(build.TextDesc("one of many"), 0), 6)
		for i := 0; i < 4000; i++ {
			many = append(many, small)
		}
		d, _ = build.PNG{W: 1, H: 1, Depth: 8, ColorType: 0, Pre: many, IDAT: []byte{0}}.Bytes()
		out = append(out, Case{Desc: "PNG with 4000 iCCP chunks", Target: "png", Data: d})
		var segs []build.Seg
		for i := 0; i < n; i++ {
			segs = append(segs, build.Seg{Marker: byte(0xE3 + i%12), Data: []byte{byte(i)}})
		}
		segs = append(segs, build.ICCSegs(bytes.Repeat([]byte{9}, 300), []int{100, 100})...)
		segs = append(segs, build.Seg{Marker: 0xC2, Data: build.SOF(8, 1, 1, [][3]byte{{1, 0x11, 0}})})
		d, _ = build.JPEG{Segs: segs, SOS: []byte{1, 1, 0, 0, 63, 0}}.Bytes()
		out = append(out, Case{Desc: fmt.Sprintf("JPEG with %d one-byte APPn segments before the ICC chunks and SOF2", n), Target: "jpeg", Data: d})
		segs = nil
		for i := 0; i < 20000; i++ {
			segs = append(segs, build.ICCSeg(byte(1+i%255), 255, []byte{byte(i), 1, 2, 3}))
		}
		segs = append(segs, build.Seg{Marker: 0xC0, Data: build.SOF(8, 1, 1, [][3]byte{{1, 0x11, 0}})})
		d, _ = build.JPEG{Segs: segs, SOS: []byte{1, 1, 0, 0, 63, 0}}.Bytes()
		out = append(out, Case{Desc: "JPEG with 20000 ICC segments re-using chunk numbers 1..255", Target: "jpeg", Data: d})
		chunks := []build.RIFFChunk{{FourCC: "VP8X", Data: build.VP8XHeader(0x20, 1, 1)}}
		for i := 0; i < n; i++ {
			chunks = append(chunks, build.RIFFChunk{FourCC: "XTR" + string(rune('A'+i%26)), Data: []byte{1}})
		}
		chunks = append(chunks, build.RIFFChunk{FourCC: "ICCP", Data: build.SimpleProfile(build.TextDesc("late"), 0)}, build.RIFFChunk{FourCC: "VP8L", Data: build.VP8LHeader(1, 1, false)})
		d, _ = build.WebP{Chunks: chunks}.Bytes()
		out = append(out, Case{Desc: fmt.Sprintf("WebP VP8X with %d one-byte unknown chunks before ICCP", n), Target: "webp", Data: d})
		p := build.ICC{Header: build.DefaultHeader()}
		p.Tags = append(p.Tags, build.ICCTag{Sig: 0x64657363, Data: build.TextDesc("a hundred thousand tags"), Share: -1})
		for i := 0; i < 100000; i++ {
			p.Tags = append(p.Tags, build.ICCTag{Sig: 0x43000000 + uint32(i), Share: 0})
		}
		d, _ = p.Bytes()
		out = append(out, Case{Desc: "ICC profile with 100001 tags", Target: "icc", Data: d})
		p = build.ICC{Header: build.DefaultHeader()}
		for i := 0; i < 50000; i++ {
			p.Tags = append(p.Tags, build.ICCTag{Sig: 0x63707274, Share: -1, Data: []byte("text\x00\x00\x00\x00x\x00\x00\x00")})
		}
		p.Tags = append(p.Tags, build.ICCTag{Sig: 0x64657363, Data: build.TextDesc("last of many equal signatures"), Share: -1})
		d, _ = p.Bytes()
		out = append(out, Case{Desc: "ICC profile with 50000 tags of one signature, description last", Target: "icc", Data: d})
		recs := make([]build.MlucRec, 60000)
		for i := range recs {
			recs[i] = build.MlucRec{Lang: [2]byte{byte('a' + i%26), byte('a' + (i/26)%26)}, Country: [2]byte{byte('A' + (i/676)%26), byte('A' + (i/17576)%26)}, Text: "ab"}
		}
		out = append(out, Case{Desc: "mluc with 60000 records, own strings", Target: "icc", Data: build.SimpleProfile(build.Mluc(recs, nil, nil, 0), 0)})
	}
	// JPEG with 255 ICC chunks and many small segments
	prof := bytes.Repeat([]byte{7}, 255*40)
	sizes := make([]int, 254)
	for i := range sizes {
		sizes[i] = 40
	}
	segs := build.ICCSegs(prof, sizes)
	for i := 0; i < 2000; i++ {
		segs = append(segs, build.Seg{Marker: 0xFE, Data: nil})
	}
	segs = append(segs, build.Seg{Marker: 0xC0, Data: build.SOF(8, 1, 1, [][3]byte{{1, 0x11, 0}})})
	d, _ := build.JPEG{Segs: segs, SOS: []byte{1, 1, 0, 0, 63, 0}}.Bytes()
	out = append(out, Case{Desc: "JPEG with 255 ICC chunks and 2000 empty COM segments", Target: "jpeg", Data: d})
	return out
}

func TestC09(t *testing.T) {
	if ev.Replaying() != nil {
		var c Case
		if err := ev.ReplayCase(&c); err != nil {
			t.Fatal(err)
		}
		if k, w, _ := check(c); k != "" {
			ev.Fail(t, "hostile", k, w, c)
		}
		fmt.Println("REPLAY case passed")
		return
	}
	debug.SetGCPercent(400)
	mut.Full = ev.Thorough()
	ev.Rule("(a) field matrix: every length/count/offset/dimension/type field in the field map of every seed (repository images and profile, grammar-built files incl. multi-record mluc, hostile mini-files; ICC fields of embedded profiles included) x ~40 hostile values (0,1,2,7,8,9,11,12,13,127,128,255,256,65535,65536,2^24-1,2^24,2^31-1,2^31,2^32-1, field+-1, field+-12, remaining length +-1, values making offset+size wrap 2^32), singly and in rapid-chosen pairs; (b) rapid structure-aware mutation (1-4 operators: set-field, truncate, duplicate/drop/swap chunk, splice two files, flip bits, change a type tag) of generated valid files and seeds; (a4) v2 textDescription tags built field by field (ASCII count x Unicode count incl. counts whose doubling wraps 2^32 x units present x ScriptCode count); (a5) payloads that are not profiles but resemble something the library knows (the marker of another container's profile segment, a bare header, another image file, a zlib stream, runs of 0xFF / zeros), cut at every length and embedded in every container; (a6) 300 valid profiles with distinct IDs, versions and descriptions through the whole chain in one process; (c) every truncation of every seed <= 8 KiB (quick, seeds > 2500 bytes: structure boundaries +-2 and every fifth position); (d) amplifier inputs (maximal-ratio deflate, many tags, many mluc records, mluc records repeating a language or locale with empty and non-empty strings in every order of up to three, 255 JPEG chunks). Entry chain per input: Load -> ICCProfile -> ICCProfileData -> ICCProfile again -> Description twice (or ReadProfile -> Description twice). Oracle: no escaping panic, never (nil metadata, nil error) nor a nil stream from Load, TotalAlloc delta <= 1 MiB + B*len(input), return within 1 s + 1 s/MiB (exceeded three times in a row; the slowest conforming call observed uses about 1-5 % of it). non-trivial = distinct mutated input whose signature is still accepted by the targeted entry point")
	ev.Set("alloc_bound", map[string]any{"A_bytes": boundA, "B_per_input_byte": boundB})
	ev.Assume("allocation is observed as the runtime.MemStats.TotalAlloc delta around the call (process-wide; a violation is re-measured once); absence over all byte strings is not established")
	rc := &recorder{bad: map[string]bool{}}
	all := append(seeds.All(), seeds.Hostile()...)

	// (d) amplifiers first: they calibrate the bound
	worst := map[string]float64{}
	tAmp := time.Now()
	defer func() { ev.Set("amplifier_phase_seconds", ampSeconds) }()
	for _, c := range amplifiers() {
		r := rc.run(c, true)
		ratio := float64(r.alloc) / float64(len(c.Data))
		if ratio > worst[c.Target] {
			worst[c.Target] = ratio
		}
	}
	ev.Set("amplifier_worst_alloc_per_input_byte", worst)
	ampSeconds = time.Since(tAmp).Seconds()
	phaseStart = time.Now()

	// (a) field matrix
	var nMatrix int64
	for _, sd := range all {
		m := withEmbeddedICC(sd)
		if len(sd.Data) > 40000 && !ev.Thorough() {
			continue // large seeds: thorough only
		}
		for fi, f := range m.Fields {
			cur := f.Get(sd.Data)
			for _, v := range mut.HostileValues(cur, f.Len, len(sd.Data)-f.Off-f.Len) {
				d := mut.Apply(sd.Data, m, []mut.Op{{Kind: "set", Field: fi, Value: v}}, nil)
				for _, target := range targetsFor(sd.Kind) {
					rc.run(Case{Desc: fmt.Sprintf("%s: field %s @%d (%d bytes) %#x -> %#x", sd.Name, f.Name, f.Off, f.Len, cur, v), Target: target, Data: d}, true)
					nMatrix++
				}
			}
		}
	}
	ev.Class("field-matrix", nMatrix)
	phase("field-matrix")
	// (a') pairs of neighbouring fields (two cooperating values in one structure, e.g. a count and a record size):
	// every ordered pair of fields whose offsets are within 32 bytes x extreme values
	var nPairs int64
	for _, sd := range all {
		m := withEmbeddedICC(sd)
		if len(sd.Data) > 40000 && !ev.Thorough() {
			continue
		}
		for fi, f := range m.Fields {
			for gi, g := range m.Fields {
				if gi <= fi || g.Off-f.Off > 32 || f.Off-g.Off > 32 || f.Kind == "type" || g.Kind == "type" {
					continue
				}
				ext := func(x build.Field) []uint64 {
					max := uint64(1)<<(8*uint(x.Len)) - 1
					if !ev.Thorough() {
						return []uint64{0, max, max/2 + 1, uint64(len(sd.Data)-x.Off-x.Len) & max}
					}
					return []uint64{0, 1, max, max/2 + 1, uint64(len(sd.Data)-x.Off-x.Len) & max, 12}
				}
				for _, v1 := range ext(f) {
					for _, v2 := range ext(g) {
						d := mut.Apply(sd.Data, m, []mut.Op{{Kind: "set", Field: fi, Value: v1}, {Kind: "set", Field: gi, Value: v2}}, nil)
						for _, target := range targetsFor(sd.Kind) {
							rc.run(Case{Desc: fmt.Sprintf("%s: %s@%d=%#x and %s@%d=%#x", sd.Name, f.Name, f.Off, v1, g.Name, g.Off, v2), Target: target, Data: d}, true)
							nPairs++
						}
					}
				}
			}
		}
	}
	ev.Class("field-pairs", nPairs)
	phase("field-pairs")
	// (a'') consistent huge values: field f is set to an extreme value V and the SAME delta is applied to one
	// other field g anywhere in the file, so that two numbers that must agree (a total size and the end of the
	// last element, an offset and a length) stay consistent while both become hostile
	var nDelta int64
	for _, sd := range all {
		m := withEmbeddedICC(sd)
		if len(sd.Data) > 40000 && !ev.Thorough() {
			continue
		}
		for fi, f := range m.Fields {
			if f.Kind == "type" || f.Len < 2 {
				continue
			}
			cur := f.Get(sd.Data)
			max := uint64(1)<<(8*uint(f.Len)) - 1
			vals := []uint64{max, max - 3, max/2 + 1, max / 4, cur + 1<<20, cur + 1<<30}
			if !ev.Thorough() {
				vals = []uint64{max, cur + 1<<30}
			}
			for _, v := range vals {
				v &= max
				delta := v - cur
				for gi, g := range m.Fields {
					if gi == fi || g.Kind == "type" || g.Len < 2 {
						continue
					}
					gmax := uint64(1)<<(8*uint(g.Len)) - 1
					d := mut.Apply(sd.Data, m, []mut.Op{{Kind: "set", Field: fi, Value: v}, {Kind: "set", Field: gi, Value: (g.Get(sd.Data) + delta) & gmax}}, nil)
					for _, target := range targetsFor(sd.Kind) {
						rc.run(Case{Desc: fmt.Sprintf("%s: %s@%d=%#x and %s@%d shifted by the same delta", sd.Name, f.Name, f.Off, v, g.Name, g.Off), Target: target, Data: d}, true)
						nDelta++
					}
				}
			}
		}
	}
	ev.Class("field-delta-pairs", nDelta)
	phase("field-delta-pairs")
	// (a3) description strings of 0..4 bytes whose first bytes are text-encoding edge values (byte order marks,
	// lone surrogates, NUL, 0xFF): every mluc record and the v2 ASCII field of every profile-bearing seed
	var nText int64
	edge := [][]byte{{0xFE}, {0xFF}, {0xFE, 0xFF}, {0xFF, 0xFE}, {0xEF, 0xBB, 0xBF}, {0xD8, 0x00}, {0xDC, 0x00}, {0xD8}, {0x00}, {0xFE, 0xFF, 0xFE}, {0xD8, 0x00, 0xD8, 0x00}}
	for _, sd := range all {
		m := withEmbeddedICC(sd)
		if len(sd.Data) > 40000 {
			continue
		}
		for fi, f := range m.Fields {
			if f.Name != "icc.mluc.rec.length" && f.Name != "icc.desc.asciicount" {
				continue
			}
			for _, e := range edge {
				for _, ln := range []uint64{uint64(len(e)), uint64(len(e)) + 1, 1, 0} {
					d := mut.Apply(sd.Data, m, []mut.Op{{Kind: "set", Field: fi, Value: ln}}, nil)
					pos := -1
					if f.Name == "icc.mluc.rec.length" && fi+1 < len(m.Fields) && m.Fields[fi+1].Name == "icc.mluc.rec.offset" {
						for gi := fi; gi >= 0; gi-- {
							if m.Fields[gi].Name == "icc.mluc.count" {
								pos = m.Fields[gi].Off - 8 + int(m.Fields[fi+1].Get(sd.Data))
								break
							}
						}
					} else if f.Name == "icc.desc.asciicount" {
						pos = f.Off + 4
					}
					if pos >= 0 && pos+len(e) <= len(d) {
						copy(d[pos:], e)
					}
					for _, target := range targetsFor(sd.Kind) {
						rc.run(Case{Desc: fmt.Sprintf("%s: %s@%d=%d with string bytes % x", sd.Name, f.Name, f.Off, ln, e), Target: target, Data: d}, true)
						nText++
					}
				}
			}
		}
	}
	ev.Class("text-edge-bytes", nText)
	phase("text-edge-bytes")
	// (a5) embedded payloads that are not profiles at all but look like something the library knows: the marker of
	// another container's profile segment, a bare header, another image file, a second layer of compression - cut
	// at every length, in every container, with the whole accessor chain run on them
	var nConf int64
	{
		hdr := build.DefaultHeader()
		good := build.SimpleProfile(build.TextDesc("inner"), 0)
		var zz bytes.Buffer
		zw := zlib.NewWriter(&zz)
		zw.Write(good)
		zw.Close()
		payloads := [][]byte{
			[]byte("ICC_PROFILE\x00\x01\x01abc"), []byte("ICC_PROFILE\x00\x00\x00"), []byte("ICC_PROFILE\x00\x02\x01" + string(good[:40])),
			append(append([]byte(nil), hdr[:]...), 0, 0, 0, 1, 'd', 'e', 's', 'c', 0, 0, 0, 144, 0, 0, 0, 12),
			[]byte("acsp"), append([]byte{0x89, 'P', 'N', 'G', 0x0D, 0x0A, 0x1A, 0x0A, 0, 0, 0, 13, 'I', 'H', 'D', 'R'}, make([]byte, 17)...),
			[]byte("RIFF\x1a\x00\x00\x00WEBPVP8X\x0a\x00\x00\x00\x20\x00\x00\x00\x00\x00\x00\x00\x00\x00"),
			[]byte("\xff\xd8\xff\xe2\x00\x11ICC_PROFILE\x00\x01\x01x\xff\xd9"), []byte("<?xml version=\"1.0\"?><profile/>"), []byte("Exif\x00\x00II*\x00\x08\x00\x00\x00\x00\x00"),
			zz.Bytes(), bytes.Repeat([]byte{0xFF}, 140), make([]byte, 140),
		}
		for pi, pl := range payloads {
			for n := 0; n <= len(pl); n++ {
				if len(pl) > 60 && n > 20 && n < len(pl)-8 && n%16 != 0 && (n < 124 || n > 136) {
					continue
				}
				d := pl[:n]
				files := map[string][]byte{"icc": d}
				files["png"], _ = build.PNG{W: 3, H: 2, Depth: 8, ColorType: 2, Pre: []build.Chunk{build.ICCPChunk("p", d, 6)}, IDAT: []byte{1}}.Bytes()
				files["webp"], _ = build.WebP{Chunks: []build.RIFFChunk{{FourCC: "VP8X", Data: build.VP8XHeader(0x20, 2, 1)}, {FourCC: "ICCP", Data: d}, {FourCC: "VP8L", Data: build.VP8LHeader(2, 1, false)}}}.Bytes()
				files["jpeg"], _ = build.JPEG{Segs: []build.Seg{build.ICCSeg(1, 1, d), {Marker: 0xC0, Data: build.SOF(8, 2, 3, [][3]byte{{1, 0x11, 0}})}}, SOS: []byte{1, 1, 0, 0, 63, 0}, Entropy: []byte{1}}.Bytes()
				for _, target := range []string{"icc", "png", "webp", "jpeg", "auto"} {
					f := files[target]
					if target == "auto" {
						f = files[[]string{"png", "webp", "jpeg"}[(pi+n)%3]]
					}
					rc.run(Case{Desc: fmt.Sprintf("embedded payload #%d cut at %d (% x...)", pi, n, d[:min(n, 12)]), Target: target, Data: f}, true)
					nConf++
				}
			}
		}
	}
	ev.Class("confusable-payloads", nConf)
	phase("confusable-payloads")
	// (a6) many DIFFERENT valid profiles in one process: 300 profiles with distinct IDs, versions, descriptions (v2 and
	// multi-localised) and sizes through the whole accessor chain, bare and embedded - whatever the accessors keep
	// between calls (caches, rings, pools) is filled past any plausible size
	var nMany int64
	for i := 0; i < 300; i++ {
		desc := build.TextDesc(fmt.Sprintf("distinct profile %d %s", i, strings.Repeat("x", i%40)))
		if i%2 == 1 {
			desc = build.Mluc([]build.MlucRec{{Lang: [2]byte{'e', 'n'}, Country: [2]byte{'U', 'S'}, Text: fmt.Sprintf("Distinct %d", i)}, {Lang: [2]byte{'j', 'a'}, Country: [2]byte{'J', 'P'}, Text: strings.Repeat("色", 1+i%9)}}, nil, nil, i%3)
		}
		prof := build.SimpleProfile(desc, (i%7)*33)
		copy(prof[8:12], [][]byte{{2, 0x10, 0, 0}, {2, 0x40, 0, 0}, {4, 0, 0, 0}, {4, 0x30, 0, 0}, {4, 0x40, 0, 0}}[i%5])
		for k := 84; k < 100; k++ {
			prof[k] = byte(i*7 + k*13 + 1) // a profile ID of its own
		}
		files := map[string][]byte{"icc": prof}
		files["png"], _ = build.PNG{W: 3, H: 2, Depth: 8, ColorType: 2, Pre: []build.Chunk{build.ICCPChunk("p", prof, 6)}, IDAT: []byte{1}}.Bytes()
		files["webp"], _ = build.WebP{Chunks: []build.RIFFChunk{{FourCC: "VP8X", Data: build.VP8XHeader(0x20, 2, 1)}, {FourCC: "ICCP", Data: prof}, {FourCC: "VP8L", Data: build.VP8LHeader(2, 1, false)}}}.Bytes()
		target := []string{"icc", "png", "webp", "auto"}[i%4]
		f := files[target]
		if target == "auto" {
			f = files["png"]
		}
		rc.run(Case{Desc: fmt.Sprintf("valid profile number %d of 300 distinct ones", i+1), Target: target, Data: f}, true)
		nMany++
	}
	ev.Class("many-distinct-profiles", nMany)
	phase("many-distinct-profiles")
	// (a4) the whole v2 textDescription structure by construction: the position of the Unicode and ScriptCode
	// counts depends on the ASCII count, so a field map with fixed offsets cannot keep two of them hostile at once
	var nDesc int64
	{
		ucCounts := []uint32{0, 1, 2, 3, 4, 8, 0x7FFFFFFF, 0x80000000, 0xFFFFFFFF, 0xFFFFFFFE, 0x40000000, 0x40000001}
		for _, v := range mut.WrapValues(64) {
			ucCounts = append(ucCounts, uint32(v))
		}
		for k := uint32(1); k <= 40; k++ {
			ucCounts = append(ucCounts, 0x80000000+k)
		}
		for _, ascii := range []string{"", "a", "hostile text"} {
			for _, ac := range []uint32{uint32(len(ascii)) + 1, uint32(len(ascii)), 0, 1} {
				if int(ac) > len(ascii)+1 {
					continue
				}
				ab := append([]byte(ascii), 0)
				for _, ucn := range []int{0, 1, 4, 33} {
					uc := make([]byte, 2*ucn)
					for i := range uc {
						uc[i] = byte(0x41 + i%23*(i&1))
					}
					for _, ucc := range ucCounts {
						for _, sc := range []struct {
							n   uint8
							pad int
						}{{0, 67}, {67, 67}, {255, 0}} {
							tag := build.TextDescFull(ac, ab[:ac], 0x656E5553, ucc, uc, 0, sc.n, make([]byte, sc.pad))
							rc.run(Case{Desc: fmt.Sprintf("textDescription ascii=%q count=%d unicode count=%#x with %d units present, scriptcode count=%d", ascii, ac, ucc, ucn, sc.n),
								Target: "icc", Data: build.SimpleProfile(tag, 0)}, true)
							nDesc++
						}
					}
				}
			}
		}
	}
	ev.Class("textdescription-grid", nDesc)
	phase("textdescription-grid")
	// (c) truncations
	var nTrunc int64
	for _, sd := range all {
		if len(sd.Data) > 8192 {
			continue
		}
		near := map[int]bool{}
		if !ev.Thorough() && len(sd.Data) > 2500 {
			for _, e := range mut.Ends(sd.Map, len(sd.Data)) {
				for d := -2; d <= 2; d++ {
					near[e+d] = true
				}
			}
		}
		for cut := 0; cut < len(sd.Data); cut++ {
			if near != nil && len(near) > 0 && !near[cut] && cut%5 != 0 {
				continue // quick, seeds > 2500 bytes: every structure boundary +-2 and every fifth position
			}
			for _, target := range targetsFor(sd.Kind) {
				rc.run(Case{Desc: fmt.Sprintf("%s truncated to %d", sd.Name, cut), Target: target, Data: sd.Data[:cut]}, true)
				nTrunc++
			}
		}
	}
	ev.Class("truncations", nTrunc)
	phase("truncations")
	ev.Sample(map[string]any{"kind": "field-matrix", "example": "test-profiles/display-p3-v4-with-v2-desc.icc: field icc.tagcount @128 -> 0xffffffff", "target": "icc"})

	if len(rc.bad) > 0 {
		t.Fail()
		return
	}
	// (b) rapid mutations (incl. pairs of field edits)
	other := all[5]
	otherEnds := mut.Ends(other.Map, len(other.Data))
	ev.RapidChecks(ev.Pick(10000, 400000))
	ev.RapidSeed(9)
	rapid.Check(t, func(rt *rapid.T) {
		var data []byte
		var m *build.Map
		var kind, desc string
		switch rapid.IntRange(0, 3).Draw(rt, "source") {
		case 0:
			f := gen.Any(rt, gen.Opts{MaxICC: 5000})
			data, m, kind, desc = f.Data, f.Map, f.Format, f.Desc
		case 1:
			recs := []build.MlucRec{{Lang: [2]byte{'e', 'n'}, Country: [2]byte{'U', 'S'}, Text: "abc"}, {Lang: [2]byte{'d', 'e'}, Country: [2]byte{'D', 'E'}, Text: "xyz!"}}
			descTag := build.Mluc(recs, nil, nil, 0)
			if rapid.Bool().Draw(rt, "v2") {
				descTag = build.TextDesc("hostile")
			}
			data = build.SimpleProfile(descTag, rapid.IntRange(0, 64).Draw(rt, "extra"))
			m, kind, desc = build.ParseICC(data, 0), "ICC", "generated ICC profile"
		default:
			var small []seeds.Seed
			for _, sd := range all {
				if len(sd.Data) <= 40000 {
					small = append(small, sd)
				}
			}
			sd := small[rapid.IntRange(0, len(small)-1).Draw(rt, "seed")]
			data, m, kind, desc = sd.Data, withEmbeddedICC(sd), sd.Kind, sd.Name
		}
		ops := mut.Gen(rt, data, m, len(other.Data), otherEnds, 4)
		d := mut.Apply(data, m, ops, other.Data)
		targets := targetsFor(kind)
		c := Case{Desc: fmt.Sprintf("%s mutated %v", desc, ops), Target: rapid.SampledFrom(targets).Draw(rt, "target"), Data: d}
		ev.Eval(1)
		k, w, r := check(c)
		if signatureOK(c.Target, c.Data) {
			ev.NT(ev.Hash(c.Target, c.Data))
			ev.Class("rapid-signature-ok/"+c.Target, 1)
		} else {
			ev.Class("rapid-signature-broken", 1)
		}
		if r.accepted {
			ev.Class("rapid-accepted", 1)
		}
		for _, o := range ops {
			ev.Class("op-"+o.Kind, 1)
		}
		if ev.SampleN() < 6 {
			ev.Sample(map[string]any{"desc": c.Desc, "target": c.Target, "bytes": len(c.Data), "alloc": r.alloc, "accepted": r.accepted})
		}
		if k != "" {
			ev.Fail(rt, "hostile", k, w, c)
		}
	})
	phase("rapid-mutations")
	ev.Set("phase_seconds", phaseSeconds)
	ev.Set("slowest_call_share_of_time_budget", map[string]any{"share": slowestShare, "call": slowestDesc})
	if ev.Violations() > 0 {
		t.Fail()
	}
}
