package c09

import (
	"testing"

	"verif/internal/ev"
	"verif/internal/seeds"
)

var fuzzTargets = []string{"png", "jpeg", "webp", "auto", "icc"}

// FuzzChain is the native coverage-guided target of the thorough tier: the whole accessor chain with the
// same oracle as the generated checks (no escaping panic, allocation bound, time budget).
func FuzzChain(f *testing.F) {
	for _, sd := range append(seeds.All(), seeds.Hostile()...) {
		if len(sd.Data) > 40000 {
			continue
		}
		for ti, tg := range fuzzTargets {
			for _, ok := range targetsFor(sd.Kind) {
				if ok == tg {
					f.Add(byte(ti), sd.Data)
				}
			}
		}
	}
	// dictionary-like hostile constants as tiny seeds
	for _, c := range [][]byte{{0xFF, 0xFF, 0xFF, 0xFF}, {0x7F, 0xFF, 0xFF, 0xFF}, {0x80, 0, 0, 0}, {0, 0, 0, 0}, {0, 0, 0, 12}, {0xFF, 0xD8, 0xFF, 0xC0, 0, 2}} {
		f.Add(byte(3), c)
	}
	f.Fuzz(func(t *testing.T, target byte, data []byte) {
		if len(data) > 1<<20 {
			return
		}
		c := Case{Desc: "native fuzzing input", Target: fuzzTargets[int(target)%len(fuzzTargets)], Data: data}
		if k, w, _ := check(c); k != "" {
			if !ev.Violation("hostile", "fuzz/"+k, w, c) {
				t.Fatalf("VIOLATION %s: %s", k, w)
			}
		}
	})
}
