// C14 — alpha passes through exactly; linearised pixels stay validly premultiplied.
package c14

import (
	"fmt"
	"image"
	"image/color"
	"math"
	"strings"
	"sync"
	"sync/atomic"
	"testing"

	"github.com/mandykoh/prism/linear"

	"verif/internal/ev"
	"verif/internal/sp"
)

func TestMain(m *testing.M) { ev.Main(m, "C14", "exploration") }

type Case struct {
	Check string    `json:"check"`
	Space string    `json:"space"`
	C     [3]uint32 `json:"c"`
	A     uint32    `json:"a"`
	FBits uint32    `json:"fbits,omitempty"` // float32 alpha bit pattern for the encode side
	// Lin: float32 bit patterns of the linear colour that is encoded together with that alpha (all zero: 0.2, 0.5, 0.9)
	Lin [3]uint32 `json:"lin,omitempty"`
}

// encodeColours are the finite linear colours the encode-side alpha cases rotate through: inside the gamut, on its
// faces, and outside it in each channel and direction (what ColorFromXYZ yields for a colour of a wider space)
var encodeColours = [][3]float32{{0.2, 0.5, 0.9}, {0, 0, 0}, {1, 1, 1}, {-0.1, 0.5, 0.9}, {0.2, -0.05, 0.9}, {0.2, 0.5, -0.3}, {1.2, 0.5, 0.9}, {0.2, 1.5, 0.9}, {0.2, 0.5, 7},
	{-0.2, -0.4, -0.1}, {1.1, 1.2, 1.3}, {1.09, -0.21, 1.04}, {-1e-6, 0.3, 0.3}, {0.3, -1e-6, 0.3}, {0.3, 0.3, -1e-6}, {1e-30, 1e-30, 1e-30}, {-1e-40, -1e-40, -1e-40},
	{3e38, 0.5, 0.5}, {0.5, -3e38, 0.5}, {0.5, 0.5, 3e38}, {0.0031308, 0.0031309, 0.0031307}, {1, 0, 1}, {0, 1, 0}, {-0.5, 2, -0.5}}

func space(name string) *sp.API {
	for i := range sp.Spaces {
		if sp.Spaces[i].Name == name {
			return &sp.Spaces[i]
		}
	}
	return nil
}

// custom colour type: forces the generic color.Color path and allows invalid premultiplied values
// hidden hides the dynamic type of a colour
type hidden struct{ c color.Color }

func (h hidden) RGBA() (r, g, b, a uint32) { return h.c.RGBA() }

type raw struct{ r, g, b, a uint32 }

func (c raw) RGBA() (r, g, b, a uint32) { return c.r, c.g, c.b, c.a }

func fin(c linear.RGB, a float32) bool {
	for _, x := range []float32{c.R, c.G, c.B, a} {
		if x != x || math.IsInf(float64(x), 0) {
			return false
		}
	}
	return true
}

func bitsEq(a, b float32) bool { return math.Float32bits(a) == math.Float32bits(b) }

func check(c Case) (string, string) {
	var k, w string
	if pn, msg := ev.Guard(func() { k, w = checkInner(c) }); pn {
		return "panic", msg
	}
	return k, w
}

func checkInner(c Case) (kind, what string) {
	s := space(c.Space)
	r8, g8, b8, a8 := uint8(c.C[0]), uint8(c.C[1]), uint8(c.C[2]), uint8(c.A)
	r16, g16, b16, a16 := uint16(c.C[0]), uint16(c.C[1]), uint16(c.C[2]), uint16(c.A)
	switch c.Check {
	case "alpha8":
		// decoding returns alpha exactly A/255; 8-bit round trip keeps A
		col, al := s.FromNRGBA(color.NRGBA{R: r8, G: g8, B: b8, A: a8})
		if !bitsEq(al, float32(a8)/255) || !fin(col, al) {
			return "alpha-decode", fmt.Sprintf("%s ColorFromNRGBA(%v): alpha %v, want %v", c.Space, c, al, float32(a8)/255)
		}
		if o := s.ToNRGBA(col, al); o.A != a8 {
			return "alpha-roundtrip", fmt.Sprintf("%s NRGBA alpha %d -> %d", c.Space, a8, o.A)
		}
		if a8 == 0 {
			// a non-premultiplied pixel's colour does not depend on its alpha (C04 requires the converted colour for
			// every alpha, and reports it); this property says "zero colour": either answer satisfies C14
			zero := col.R == 0 && col.G == 0 && col.B == 0
			if !bitsEq(al, 0) || !(zero || bitsEq(col.R, s.FromNRGBAch(r8))) {
				return "transparent", fmt.Sprintf("%s ColorFromNRGBA transparent: %v alpha %v", c.Space, col, al)
			}
		}
		pr, pg, pb := uint8(uint32(r8)*uint32(a8)/255), uint8(uint32(g8)*uint32(a8)/255), uint8(uint32(b8)*uint32(a8)/255)
		col2, al2 := s.FromRGBA(color.RGBA{R: pr, G: pg, B: pb, A: a8})
		if !bitsEq(al2, float32(a8)/255) || !fin(col2, al2) {
			return "alpha-decode", fmt.Sprintf("%s ColorFromRGBA(%d,%d,%d,%d): colour %v alpha %v, want alpha %v", c.Space, pr, pg, pb, a8, col2, al2, float32(a8)/255)
		}
		if o := s.ToRGBA(col2, al2); o.A != a8 {
			return "alpha-roundtrip", fmt.Sprintf("%s RGBA alpha %d -> %d", c.Space, a8, o.A)
		}
		if a8 == 0 {
			// transparent premultiplied pixel (also with invalid channel values) decodes to the zero colour
			col3, al3 := s.FromRGBA(color.RGBA{R: r8, G: g8, B: b8, A: 0})
			if col3 != (linear.RGB{}) || !bitsEq(al3, 0) {
				return "transparent", fmt.Sprintf("%s ColorFromRGBA(%d,%d,%d,0) = %v alpha %v, want zero colour", c.Space, r8, g8, b8, col3, al3)
			}
		}
	case "alpha16":
		want := float32(a16) / 65535
		for name, in := range map[string]color.Color{
			"RGBA64": color.RGBA64{R: r16, G: g16, B: b16, A: a16}, "NRGBA64": color.NRGBA64{R: r16, G: g16, B: b16, A: a16}, "custom": raw{c.C[0], c.C[1], c.C[2], c.A}} {
			col, al := s.FromEncoded(in)
			if !bitsEq(al, want) || !fin(col, al) {
				return "alpha-decode", fmt.Sprintf("%s ColorFromEncodedColor(%s %v): colour %v alpha %v, want alpha %v", c.Space, name, c, col, al, want)
			}
			col2, al2 := s.FromLinearColor(in)
			if !bitsEq(al2, want) || !fin(col2, al2) {
				return "alpha-decode", fmt.Sprintf("%s ColorFromLinearColor(%s %v): colour %v alpha %v, want alpha %v", c.Space, name, c, col2, al2, want)
			}
			if a16 == 0 {
				if col != (linear.RGB{}) || col2 != (linear.RGB{}) || !bitsEq(al, 0) || !bitsEq(al2, 0) {
					return "transparent", fmt.Sprintf("%s transparent %s %v decodes to %v/%v alpha %v/%v, want zero", c.Space, name, c, col, col2, al, al2)
				}
			}
			if o := s.LineariseColor(in); o.A != a16 {
				return "alpha-roundtrip", fmt.Sprintf("%s LineariseColor(%s %v).A = %d", c.Space, name, c, o.A)
			} else if name != "custom" && (o.R > o.A || o.G > o.A || o.B > o.A) {
				return "premultiplied", fmt.Sprintf("%s LineariseColor(%s %v) = %v: channel exceeds alpha", c.Space, name, c, o)
			}
			if o := s.EncodeColor(in); o.A != a16 {
				return "alpha-roundtrip", fmt.Sprintf("%s EncodeColor(%s %v).A = %d", c.Space, name, c, o.A)
			}
		}
	case "premult":
		// LineariseColor of a valid premultiplied pixel is validly premultiplied
		o := s.LineariseColor(color.RGBA64{R: r16, G: g16, B: b16, A: a16})
		if o.A != a16 {
			return "alpha-roundtrip", fmt.Sprintf("%s LineariseColor(%v).A = %d", c.Space, c, o.A)
		}
		if o.R > o.A || o.G > o.A || o.B > o.A {
			return "premultiplied", fmt.Sprintf("%s LineariseColor(RGBA64{%d,%d,%d,%d}) = %v: channel exceeds alpha", c.Space, r16, g16, b16, a16, o)
		}
	case "encode-alpha":
		f := math.Float32frombits(c.FBits)
		rgb := linear.RGB{R: 0.2, G: 0.5, B: 0.9}
		if c.Lin != [3]uint32{} {
			rgb = linear.RGB{R: math.Float32frombits(c.Lin[0]), G: math.Float32frombits(c.Lin[1]), B: math.Float32frombits(c.Lin[2])}
		}
		n, r, r64 := s.ToNRGBA(rgb, f), s.ToRGBA(rgb, f), s.ToRGBA64(rgb, f)
		l64 := rgb.ToLinearRGBA64(f)
		if f != f {
			return "", "" // NaN: no panic only
		}
		for _, p := range []struct {
			name string
			got  float64
			max  float64
		}{{"ToNRGBA", float64(n.A), 255}, {"ToRGBA", float64(r.A), 255}, {"ToRGBA64", float64(r64.A), 65535}, {"ToLinearRGBA64", float64(l64.A), 65535}} {
			x := float64(f)
			lo, hi := x*p.max-0.5-p.max/(1<<22), x*p.max+0.5+p.max/(1<<22)
			if x <= 0 {
				lo, hi = 0, 0
			} else if x >= 1 {
				lo, hi = p.max, p.max
			}
			if p.got < lo || p.got > hi {
				return "alpha-encode", fmt.Sprintf("%s %s alpha %.9g -> A=%v, want round(alpha*%v) clipped", c.Space, p.name, f, p.got, p.max)
			}
		}
		// NRGBA colour channels do not depend on alpha
		if f > 0 {
			if o := s.ToNRGBA(rgb, 1); n.R != o.R || n.G != o.G || n.B != o.B {
				return "alpha-encode", fmt.Sprintf("%s ToNRGBA colour channels depend on alpha %g: %v vs %v", c.Space, f, n, o)
			}
		}
	case "opaque8":
		cn, an := s.FromNRGBA(color.NRGBA{R: r8, G: g8, B: b8, A: 255})
		cr, ar := s.FromRGBA(color.RGBA{R: r8, G: g8, B: b8, A: 255})
		ce1, ae1 := s.FromEncoded(color.NRGBA{R: r8, G: g8, B: b8, A: 255})
		ce2, ae2 := s.FromEncoded(color.RGBA{R: r8, G: g8, B: b8, A: 255})
		if cn != cr || cn != ce1 || cn != ce2 || an != 1 || ar != 1 || ae1 != 1 || ae2 != 1 {
			return "opaque-agree", fmt.Sprintf("%s opaque (%d,%d,%d): NRGBA %v RGBA %v Encoded(NRGBA) %v Encoded(RGBA) %v", c.Space, r8, g8, b8, cn, cr, ce1, ce2)
		}
	case "opaque16":
		c1, a1 := s.FromEncoded(color.NRGBA64{R: r16, G: g16, B: b16, A: 65535})
		c2, a2 := s.FromEncoded(color.RGBA64{R: r16, G: g16, B: b16, A: 65535})
		c3, a3 := s.FromEncoded(raw{c.C[0], c.C[1], c.C[2], 65535})
		if c1 != c2 || c1 != c3 || a1 != 1 || a2 != 1 || a3 != 1 {
			return "opaque-agree", fmt.Sprintf("%s opaque16 (%d,%d,%d): %v %v %v", c.Space, r16, g16, b16, c1, c2, c3)
		}
	}
	return "", ""
}

type recorder struct {
	mu  sync.Mutex
	bad map[string]bool
}

func (r *recorder) run(c Case) {
	k, w := check(c)
	if k == "" {
		return
	}
	key := c.Space + "/" + c.Check + "/" + k
	r.mu.Lock()
	defer r.mu.Unlock()
	if r.bad[key] {
		return
	}
	r.bad[key] = true
	ev.Violation("alpha", key, w, c)
}

func TestC14(t *testing.T) {
	if ev.Replaying() != nil {
		var c Case
		if err := ev.ReplayCase(&c); err != nil {
			t.Fatal(err)
		}
		if !strings.HasPrefix(c.Check, "image-") {
			if k, w := check(c); k != "" {
				ev.Fail(t, "alpha", c.Space+"/"+c.Check+"/"+k, w, c)
			}
			fmt.Println("REPLAY case passed:", c)
			return
		}
		// image-level cases are replayed by re-running the (cheap, exhaustive) enumeration below
	}
	ev.Rule("enumerations per space: all 256 8-bit alphas x 24 colours (decode exactness, 8-bit round trip, transparent pixels incl. invalid premultiplied values); all 65,536 16-bit alphas x 16 channel levels through RGBA64/NRGBA64/custom colour types (decode exactness, LineariseColor/EncodeColor alpha round trip, transparent -> zero); premultiplied validity: every alpha x 64 channel values <= alpha (quick) / every (channel <= alpha) pair (thorough); encode-side alpha for boundary floats (k+0.5)/max +-ulps and specials, each with one of 24 finite linear colours inside, on and outside the gamut (negative, above one, tiny and huge channels), and every one of those colours with five alphas; opaque constructor agreement for all codes. non-trivial = distinct case with 0 < channel <= alpha < max (non-opaque, non-zero)")
	ev.Assume("for the non-premultiplied 8-bit constructor a transparent pixel is required to give alpha 0 and either the zero colour (this property's words) or the per-channel decode (what C04 requires and checks)")
	rec := &recorder{bad: map[string]bool{}}
	var nt, evals int64
	for si := range sp.Spaces {
		s := &sp.Spaces[si]
		// (1)(2) 8-bit
		for a := 0; a < 256; a++ {
			for k := 0; k < 24; k++ {
				h := uint32(k*2654435761+a*40503) ^ uint32(ev.Seed())
				c := Case{Check: "alpha8", Space: s.Name, C: [3]uint32{h & 255, (h >> 8) & 255, (h >> 16) & 255}, A: uint32(a)}
				rec.run(c)
				evals++
				if a > 0 && a < 255 {
					nt++
				}
			}
		}
		// opaque agreement
		for v := 0; v < 256; v++ {
			rec.run(Case{Check: "opaque8", Space: s.Name, C: [3]uint32{uint32(v), uint32((v + 85) % 256), uint32((v + 170) % 256)}, A: 255})
			evals++
		}
		for v := 0; v < 65536; v++ {
			rec.run(Case{Check: "opaque16", Space: s.Name, C: [3]uint32{uint32(v), uint32((v + 21845) % 65536), uint32((v + 43690) % 65536)}, A: 65535})
			evals++
		}
	}
	// (1)(2)(4) 16-bit alphas x 16 channel levels, parallel over alphas
	var wg sync.WaitGroup
	sem := make(chan struct{}, 16)
	for si := range sp.Spaces {
		s := &sp.Spaces[si]
		for blk := 0; blk < 64; blk++ {
			wg.Add(1)
			sem <- struct{}{}
			go func(blk int) {
				defer wg.Done()
				defer func() { <-sem }()
				var n, e int64
				for a := blk * 1024; a < (blk+1)*1024; a++ {
					for lvl := 0; lvl < 16; lvl++ {
						ch := uint32(a * lvl / 15)
						c := Case{Check: "alpha16", Space: s.Name, C: [3]uint32{ch, uint32(a) - ch, ch / 2}, A: uint32(a)}
						rec.run(c)
						e++
						if ch > 0 && a < 65535 {
							n++
						}
					}
				}
				if blk == 0 {
					// transparent with invalid channel values through the generic path
					for _, r := range []uint32{1, 255, 65535} {
						rec.run(Case{Check: "alpha16", Space: s.Name, C: [3]uint32{r, r / 2, 65535}, A: 0})
						e++
					}
				}
				atomic.AddInt64(&nt, n)
				atomic.AddInt64(&evals, e)
			}(blk)
		}
	}
	wg.Wait()
	// (3) encode-side alpha
	var fb []uint32
	for _, max := range []float64{255, 65535} {
		for k := 0.0; k <= max; k++ {
			for _, x := range []float64{(k + 0.5) / max, k / max} {
				b := math.Float32bits(float32(x))
				for d := uint32(0); d < 3; d++ {
					fb = append(fb, b+d, b-d)
				}
			}
		}
	}
	for _, b := range []uint32{0, 0x80000000, 1, 0x3F800000, 0x3F800001, 0x3F7FFFFF, 0x40000000, 0x7F7FFFFF, 0x7F800000, 0xFF800000, 0x7FC00000, 0xFFC00001, 0xBF800000, 0x00800000} {
		fb = append(fb, b)
	}
	for si := range sp.Spaces {
		for _, b := range fb {
			if b > 0x7F800000 && b < 0x80000000 && b != 0x7FC00000 {
				continue
			}
			ec := encodeColours[int(evals%int64(len(encodeColours)))]
			rec.run(Case{Check: "encode-alpha", Space: sp.Spaces[si].Name, FBits: b, Lin: [3]uint32{math.Float32bits(ec[0]), math.Float32bits(ec[1]), math.Float32bits(ec[2])}})
			evals++
		}
		// every colour of the table with a few alphas
		for _, ec := range encodeColours {
			for _, a := range []float32{1.0 / 65535, 0.25, 0.5, 254.0 / 255, 1} {
				rec.run(Case{Check: "encode-alpha", Space: sp.Spaces[si].Name, FBits: math.Float32bits(a), Lin: [3]uint32{math.Float32bits(ec[0]), math.Float32bits(ec[1]), math.Float32bits(ec[2])}})
				evals++
			}
		}
	}
	ev.Class("encode-alpha-floats", int64(len(fb)*4))
	ev.Class("encode-alpha-colours", int64(len(encodeColours)))
	// (5) premultiplied validity
	if ev.Thorough() {
		for si := range sp.Spaces {
			s := &sp.Spaces[si]
			for blk := 0; blk < 256; blk++ {
				wg.Add(1)
				sem <- struct{}{}
				go func(blk int) {
					defer wg.Done()
					defer func() { <-sem }()
					var n, e int64
					for a := blk * 256; a < (blk+1)*256; a++ {
						// three channel values per call: c, c+1, c+2
						for ch := 0; ch <= a; ch += 3 {
							c1, c2 := ch+1, ch+2
							if c1 > a {
								c1 = a
							}
							if c2 > a {
								c2 = a
							}
							rec.run(Case{Check: "premult", Space: s.Name, C: [3]uint32{uint32(ch), uint32(c1), uint32(c2)}, A: uint32(a)})
							e += int64(c2 - ch + 1) // one evaluation per (channel, alpha) pair
						}
						if a < 65535 {
							n += int64(a) // pairs with 0 < c <= a
						}
					}
					atomic.AddInt64(&nt, n)
					atomic.AddInt64(&evals, e)
				}(blk)
			}
		}
		wg.Wait()
		ev.Set("exhaustive", true)
		ev.Set("exhaustive_scope", "every (channel <= alpha) 16-bit pair through LineariseColor in all 4 spaces; all alphas through every constructor")
	} else {
		for si := range sp.Spaces {
			s := &sp.Spaces[si]
			for blk := 0; blk < 64; blk++ {
				wg.Add(1)
				sem <- struct{}{}
				go func(blk int) {
					defer wg.Done()
					defer func() { <-sem }()
					var n, e int64
					for a := blk * 1024; a < (blk+1)*1024; a++ {
						chs := make([]uint32, 0, 66)
						chs = append(chs, 0, 1, uint32(a), uint32(a))
						if a > 0 {
							chs[3] = uint32(a - 1)
						}
						if a < 1 {
							chs[1] = 0
						}
						for k := 1; k <= 62; k++ {
							h := (uint64(a)*0x9E3779B1 + uint64(k)*0x85EBCA77 + ev.Seed()) % uint64(a+1)
							// stratified: stratum k of 62 plus hash jitter
							v := uint64(a) * uint64(k) / 63
							if h%2 == 0 && v > 0 {
								v--
							}
							chs = append(chs, uint32(v))
						}
						for i := 0; i+2 < len(chs); i += 3 {
							rec.run(Case{Check: "premult", Space: s.Name, C: [3]uint32{chs[i], chs[i+1], chs[i+2]}, A: uint32(a)})
							e++
							if a < 65535 && a > 0 {
								n++
							}
						}
					}
					atomic.AddInt64(&nt, n)
					atomic.AddInt64(&evals, e)
				}(blk)
			}
		}
		wg.Wait()
	}
	// dynamic colour type must not matter: F(c) for every standard colour type is bit-identical to F(hidden{c}),
	// where hidden only exposes RGBA() (so the generic path is taken)
	{
		x := uint32(ev.Seed()*2654435761 + 77)
		next := func() uint32 { x = x*1664525 + 1013904223; return x >> 8 }
		n := ev.Pick(3000, 200000)
		for i := 0; i < n; i++ {
			v := next()
			a8 := uint8(next())
			switch i % 5 {
			case 0:
				a8 = 255
			case 1:
				a8 = uint8(i % 3) // 0,1,2
			}
			a16 := uint16(next())
			if i%7 == 0 {
				a16 = 0xFF00 | uint16(a8)
			}
			r8, g8, b8 := uint8(v), uint8(v>>8), uint8(v>>16)
			pm := func(c uint8) uint8 { return uint8(uint32(c) * uint32(a8) / 255) }
			pm16 := func(c uint16) uint16 { return uint16(uint32(c) * uint32(a16) / 65535) }
			cols := []color.Color{
				color.NRGBA{r8, g8, b8, a8}, color.RGBA{pm(r8), pm(g8), pm(b8), a8},
				color.NRGBA64{uint16(v), uint16(v >> 4), uint16(v >> 8), a16}, color.RGBA64{pm16(uint16(v)), pm16(uint16(v >> 4)), pm16(uint16(v >> 8)), a16},
				color.Gray{r8}, color.Gray16{uint16(v)}, color.Alpha{a8}, color.Alpha16{a16},
				color.CMYK{r8, g8, b8, a8}, color.YCbCr{r8, g8, b8}, color.NYCbCrA{color.YCbCr{r8, g8, b8}, a8},
			}
			for si := range sp.Spaces {
				s := &sp.Spaces[si]
				for _, c := range cols {
					evals++
					nt++
					h := hidden{c}
					c1, a1 := s.FromEncoded(c)
					c2, a2 := s.FromEncoded(h)
					l1, la1 := s.FromLinearColor(c)
					l2, la2 := s.FromLinearColor(h)
					if c1 != c2 || !bitsEq(a1, a2) || l1 != l2 || !bitsEq(la1, la2) || s.LineariseColor(c) != s.LineariseColor(h) || s.EncodeColor(c) != s.EncodeColor(h) {
						key := s.Name + "/colour-type/" + fmt.Sprintf("%T", c)
						if !rec.bad[key] {
							rec.bad[key] = true
							ev.Violation("alpha", key, fmt.Sprintf("%s: results for %T%v differ from the results for the same colour behind an opaque color.Color: ColorFromEncodedColor %v/%v vs %v/%v, LineariseColor %v vs %v, EncodeColor %v vs %v", s.Name, c, c, c1, a1, c2, a2, s.LineariseColor(c), s.LineariseColor(h), s.EncodeColor(c), s.EncodeColor(h)),
								map[string]any{"space": s.Name, "type": fmt.Sprintf("%T", c), "value": fmt.Sprintf("%v", c)})
						}
					}
				}
			}
		}
		ev.Class("colour-type-differential", int64(n*11*4))
	}
	// image level: every 16-bit alpha in one 256x256 image, written into a REUSED (non-zero) destination buffer;
	// alpha must come out bit-identical, transparent pixels as zero colour with alpha 0, channels <= alpha
	for si := range sp.Spaces {
		s := &sp.Spaces[si]
		for _, srcKind := range []string{"RGBA64", "NRGBA64", "Paletted256", "Paletted255"} {
			for _, op := range []string{"Linearise", "Encode"} {
				for _, layout := range []string{"plain", "source is a sub-image", "destination is a sub-image", "alpha high byte varies along the row", "rows with negative coordinates", "destination holds an opaque image", "fresh destination"} {
					var src image.Image
					alphaAt := func(x, y int) uint16 { return uint16(y*256 + x) }
					if layout == "alpha high byte varies along the row" {
						// neighbours in a row share the low byte of alpha and differ in the high byte
						alphaAt = func(x, y int) uint16 { return uint16(x*256 + y) }
					}
					sy, dy := 3, 0 // y offsets of source and destination
					if layout == "rows with negative coordinates" {
						sy, dy = -301, -129 // images centred on or lying above the origin
					}
					srcParent := image.Rect(-5, sy, 251, sy+256)
					if layout == "source is a sub-image" {
						srcParent = image.Rect(-9, 1, 258, 262) // same visible pixels, wider rows
					}
					if srcKind == "RGBA64" {
						m := image.NewRGBA64(srcParent)
						for y := 0; y < 256; y++ {
							for x := 0; x < 256; x++ {
								a := alphaAt(x, y)
								m.SetRGBA64(x-5, y+sy, color.RGBA64{R: a / 2, G: a, B: a / 7, A: a})
							}
						}
						src = m.SubImage(image.Rect(-5, sy, 251, sy+256))
					} else if strings.HasPrefix(srcKind, "Paletted") {
						// an indexed picture whose palette entries carry their own alphas (GIF/PNG with tRNS): the full 256
						// entries and one fewer; the alpha of a pixel is the alpha of its entry
						n := 256
						if srcKind == "Paletted255" {
							n = 255
						}
						pal := make(color.Palette, n)
						for i := range pal {
							a := uint16(i*257) ^ uint16(len(layout)*977+si*31)
							if i == 0 {
								a = 0
							}
							if i == n-1 {
								a = 0xFFFF
							}
							pal[i] = color.NRGBA64{R: uint16(i * 131), G: 0xFFFF, B: uint16(i), A: a}
						}
						m := image.NewPaletted(srcParent, pal)
						for y := 0; y < 256; y++ {
							for x := 0; x < 256; x++ {
								m.SetColorIndex(x-5, y+sy, uint8((x*7+y*3)%n))
							}
						}
						alphaAt = func(x, y int) uint16 { return pal[(x*7+y*3)%n].(color.NRGBA64).A }
						src = m.SubImage(image.Rect(-5, sy, 251, sy+256))
					} else {
						m := image.NewNRGBA64(srcParent)
						for y := 0; y < 256; y++ {
							for x := 0; x < 256; x++ {
								m.SetNRGBA64(x-5, y+sy, color.NRGBA64{R: uint16(x * 257), G: 0xFFFF, B: uint16(y), A: alphaAt(x, y)})
							}
						}
						src = m.SubImage(image.Rect(-5, sy, 251, sy+256))
					}
					dst := image.NewRGBA64(image.Rect(0, dy, 256, dy+256))
					if layout == "destination is a sub-image" {
						dst = image.NewRGBA64(image.Rect(-3, -2, 261, 257))
						if (si+len(op)+len(srcKind))%2 == 0 {
							dst = image.NewRGBA64(image.Rect(-3, -2, 256, 256)) // the sub-image is the parent's bottom-right corner
						}
					}
					fillv := map[string]byte{"destination holds an opaque image": 0xFF, "fresh destination": 0}
					for i := range dst.Pix {
						dst.Pix[i] = 0xAB
						if v, ok := fillv[layout]; ok {
							dst.Pix[i] = v
						}
					}
					dst = dst.SubImage(image.Rect(0, dy, 256, dy+256)).(*image.RGBA64)
					par := []int{3, 40, 7, 300, 1, 256, 257}[(len(layout)+len(op)+si)%7] // also more workers than a pool might hold, and than rows
					c := Case{Check: "image-" + op + "-" + srcKind + " (" + layout + ")", Space: s.Name}
					ev.Journal("alpha", c) // a panic on one of the transform's worker goroutines ends the process
					pn, msg := ev.Guard(func() {
						if op == "Linearise" {
							s.LineariseImage(dst, src, par)
						} else {
							s.EncodeImage(dst, src, par)
						}
					})
					evals += 65536
					nt += 65534
					if pn {
						ev.Violation("alpha", s.Name+"/"+c.Check+"/panic", msg, c)
						continue
					}
					for y := 0; y < 256; y++ {
						for x := 0; x < 256; x++ {
							o := dst.RGBA64At(x, y+dy)
							a := alphaAt(x, y)
							bad := ""
							switch {
							case o.A != a:
								bad = "alpha-roundtrip"
							case a == 0 && (o.R != 0 || o.G != 0 || o.B != 0):
								bad = "transparent"
							case op == "Linearise" && (o.R > o.A || o.G > o.A || o.B > o.A):
								bad = "premultiplied"
							}
							if bad != "" {
								c.A, c.C = uint32(a), [3]uint32{uint32(x), uint32(y), 0}
								ev.Violation("alpha", s.Name+"/"+c.Check+"/"+bad, fmt.Sprintf("%s %sImage(%s source, reused destination): pixel with alpha %d came out as %v", s.Name, op, srcKind, a, o), c)
								y = 256
								break
							}
						}
					}
				}
			}
		}
	}
	// the same on rows of 9000 and 70000 pixels (transforms that move pixels in fixed-size runs)
	for si := range sp.Spaces {
		s := &sp.Spaces[si]
		for wi, w := range []int{9000, 70000} {
			for _, op := range []string{"Linearise", "Encode"} {
				src := image.NewNRGBA64(image.Rect(3, 1, 3+w, 3))
				for y := 1; y < 3; y++ {
					for x := 0; x < w; x++ {
						src.SetNRGBA64(3+x, y, color.NRGBA64{R: uint16(x * 7), G: 0xFFFF, B: uint16(x), A: uint16(x*13 + y)})
					}
				}
				dst := image.NewRGBA64(image.Rect(0, 0, w, 2))
				c := Case{Check: fmt.Sprintf("image-%s-NRGBA64 (%d pixels wide)", op, w), Space: s.Name}
				ev.Journal("alpha", c)
				pn, msg := ev.Guard(func() {
					if op == "Linearise" {
						s.LineariseImage(dst, src, 1+wi*3)
					} else {
						s.EncodeImage(dst, src, 1+wi*3)
					}
				})
				evals += int64(2 * w)
				nt += int64(2 * w)
				if pn {
					ev.Violation("alpha", s.Name+"/"+c.Check+"/panic", msg, c)
					continue
				}
				for y := 0; y < 2; y++ {
					for x := 0; x < w; x++ {
						if o, a := dst.RGBA64At(x, y), uint16(x*13+y+1); o.A != a {
							c.A, c.C = uint32(a), [3]uint32{uint32(x), uint32(y), 0}
							ev.Violation("alpha", s.Name+"/"+c.Check+"/alpha-roundtrip", fmt.Sprintf("%s %sImage on a %d-pixel row: pixel %d has alpha %d in the source and %d in the result", s.Name, op, w, x, a, o.A), c)
							y, x = 2, w
						}
					}
				}
			}
		}
	}
	ev.Eval(evals)
	ev.NTAdd(nt)
	ev.Sample(Case{Check: "premult", Space: "adobergb", C: [3]uint32{1, 300, 299}, A: 300})
	ev.Sample(map[string]any{"check": "premult", "space": "srgb", "in": "RGBA64{32768,1,40000,40000}", "out": sp.Spaces[0].LineariseColor(color.RGBA64{R: 32768, G: 1, B: 40000, A: 40000})})
	ev.Sample(Case{Check: "alpha16", Space: "prophotorgb", C: [3]uint32{65535, 7, 65535}, A: 0})
	ev.Sample(Case{Check: "encode-alpha", Space: "displayp3", FBits: math.Float32bits(0.5 / 255)})
	if ev.Violations() > 0 {
		t.Fail()
	}
}
