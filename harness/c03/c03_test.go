// C03 — each space's RGB<->XYZ transform is the one fixed by its primaries and white.
package c03

import (
	"fmt"
	"math"
	"testing"

	"github.com/mandykoh/prism/ciexyz"
	"github.com/mandykoh/prism/linear"
	"pgregory.net/rapid"

	"verif/internal/ev"
	"verif/internal/ref"
	"verif/internal/sp"
)

func TestMain(m *testing.M) { ev.Main(m, "C03", "exploration") }

// order probes: each XYZ function of each space checked against the reference, in a generated order, in a fresh process
func init() {
	for i := range sp.Spaces {
		name := sp.Spaces[i].Name
		for _, dir := range []string{"toXYZ", "fromXYZ"} {
			dir := dir
			ev.RegisterProbe(name+"."+dir, func() string {
				for _, v := range [][3]float32{{0.25, 0.5, 0.75}, {1, 1, 1}, {0, 1, 0}} {
					if k, w := check(Case{Space: name, Dir: dir, V: v}); k != "" {
						return w
					}
				}
				return ""
			})
		}
	}
}

type Case struct {
	Space string     `json:"space"`
	Dir   string     `json:"dir"` // "toXYZ", "fromXYZ", "rt-rgb", "rt-xyz"
	V     [3]float32 `json:"v"`
	// After > 0: the case directly follows conversions of colours with non-finite components (number After-1 of
	// outside()), whose results are ignored
	After int `json:"after,omitempty"`
}

func outside(i int) {
	nan, inf := float32(math.NaN()), float32(math.Inf(1))
	vs := [][3]float32{{nan, 0.5, 0.5}, {0.5, inf, 0.2}, {0.1, 0.2, -inf}, {nan, nan, nan}, {3.4e38, 3.4e38, 3.4e38}, {-3.4e38, 3.4e38, 1}}
	v := vs[i%len(vs)]
	a := &sp.Spaces[(i/len(vs))%len(sp.Spaces)]
	ev.Guard(func() {
		a.ToXYZ(a.FromLinear(v[0], v[1], v[2]))
		a.FromXYZ(ciexyz.Color{X: v[0], Y: v[1], Z: v[2]})
		a.ToXYZ(a.FromXYZ(ciexyz.Color{X: v[2], Y: v[0], Z: v[1]}))
	})
}

func space(name string) *sp.API {
	for i := range sp.Spaces {
		if sp.Spaces[i].Name == name {
			return &sp.Spaces[i]
		}
	}
	return nil
}

type mats struct{ to, from ref.M3 }

var refM = map[string]mats{}

func declared(a *sp.API) (r, g, b, w ref.XY) {
	f := func(c interface{ x() (float32, float32) }) {}
	_ = f
	pr, pg, pb, pw := a.PrimR(), a.PrimG(), a.PrimB(), a.White()
	return ref.XY{X: float64(pr.X), Y: float64(pr.Y)}, ref.XY{X: float64(pg.X), Y: float64(pg.Y)},
		ref.XY{X: float64(pb.X), Y: float64(pb.Y)}, ref.XY{X: float64(pw.X), Y: float64(pw.Y)}
}

func refMats(a *sp.API) mats {
	if m, ok := refM[a.Name]; ok {
		return m
	}
	r, g, b, w := declared(a)
	to, ok := ref.RGBToXYZ(r, g, b, w)
	if !ok {
		panic("declared primaries degenerate")
	}
	from, _ := to.Inv()
	refM[a.Name] = mats{to, from}
	return refM[a.Name]
}

func l1(v [3]float32) float64 {
	return math.Abs(float64(v[0])) + math.Abs(float64(v[1])) + math.Abs(float64(v[2]))
}

// check one triple.
func check(c Case) (kind, what string) {
	if c.After > 0 {
		outside(c.After - 1)
	}
	a := space(c.Space)
	m := refMats(a)
	in := ref.V3{float64(c.V[0]), float64(c.V[1]), float64(c.V[2])}
	scale := math.Max(1, l1(c.V))
	var got, want ref.V3
	tol := 1.5e-6 * scale // float32 evaluation of the 3-term sum has a worst-case rounding error of 4*2^-24*sum|terms| = 0.77e-6*scale
	p, msg := ev.Guard(func() {
		switch c.Dir {
		case "toXYZ":
			o := a.ToXYZ(a.FromLinear(c.V[0], c.V[1], c.V[2]))
			got, want = ref.V3{float64(o.X), float64(o.Y), float64(o.Z)}, m.to.MulV(in)
		case "fromXYZ":
			o := a.FromXYZ(ciexyz.Color{X: c.V[0], Y: c.V[1], Z: c.V[2]})
			got, want = ref.V3{float64(o.R), float64(o.G), float64(o.B)}, m.from.MulV(in)
		case "rt-rgb":
			o := a.FromXYZ(a.ToXYZ(linear.RGB{R: c.V[0], G: c.V[1], B: c.V[2]}))
			got, want = ref.V3{float64(o.R), float64(o.G), float64(o.B)}, in
			tol = 2e-6 * scale
		case "mutated":
			// a Color built from an unrelated XYZ value, its fields then overwritten: ToXYZ must follow the fields
			o := a.MutateToXYZ(ciexyz.Color{X: 0.2 + c.V[2]/7, Y: 0.3, Z: 0.1 + c.V[0]/5}, linear.RGB{R: c.V[0], G: c.V[1], B: c.V[2]})
			got, want = ref.V3{float64(o.X), float64(o.Y), float64(o.Z)}, m.to.MulV(in)
		case "rt-xyz":
			o := a.ToXYZ(a.FromXYZ(ciexyz.Color{X: c.V[0], Y: c.V[1], Z: c.V[2]}))
			got, want = ref.V3{float64(o.X), float64(o.Y), float64(o.Z)}, in
			tol = 2e-6 * scale
		}
	})
	if p {
		return "panic", msg
	}
	for i := 0; i < 3; i++ {
		if r := math.Abs(got[i]-want[i]) / tol; r > worst[c.Dir] {
			worst[c.Dir] = r
		}
		if math.IsNaN(got[i]) || math.Abs(got[i]-want[i]) > tol {
			return c.Dir, fmt.Sprintf("%s %s(%v): component %d = %.9g, reference %.9g (|diff| %.3g > %.3g)", c.Space, c.Dir, c.V, i, got[i], want[i], math.Abs(got[i]-want[i]), tol)
		}
	}
	return "", ""
}

var worst = map[string]float64{}

// steps moves v by n float32 steps (n may be negative)
func steps(v float32, n int) float32 {
	for ; n > 0; n-- {
		v = math.Nextafter32(v, float32(math.Inf(1)))
	}
	for ; n < 0; n++ {
		v = math.Nextafter32(v, float32(math.Inf(-1)))
	}
	return v
}

func nontrivial(v [3]float32) bool {
	out := false
	for _, x := range v {
		if x < 0 || x > 1 {
			out = true
		}
	}
	return out || (v[0] != v[1] && v[1] != v[2] && v[0] != v[2])
}

func TestC03(t *testing.T) {
	if ev.Replaying() != nil {
		if ev.ReplayOrder(t) {
			return
		}
		var c Case
		if err := ev.ReplayCase(&c); err != nil {
			t.Fatal(err)
		}
		if ev.ReplayCheck() == "order" {
			var f ev.ProbeFailure
			_ = ev.ReplayCase(&f)
			fails, err := ev.RunProbeOrder(f.Order)
			if err != nil {
				t.Fatal(err)
			}
			for _, x := range fails {
				ev.Violation("order", "first-use-order/"+x.Probe, x.What, x)
			}
		} else if c.Dir == "declared" || c.Dir == "coeff" {
			staticChecks(space(c.Space))
		} else if k, w := check(c); k != "" {
			ev.Fail(t, "xyz", c.Space+"/"+k, w, c)
		}
		if ev.Violations() == 0 {
			fmt.Println("REPLAY case passed:", c)
		} else {
			t.Fail()
		}
		return
	}
	ev.Rule("per space: declared chromaticities vs published values; 9+9 coefficients recovered by probing basis vectors; then the 8-bit-spaced lattice (64^3 quick / 256^3 thorough) of RGB triples and of XYZ triples, plus component values that put each matrix coefficient's product within 8 float32 steps of a power of two, 4 million (thorough 25 million per shard) pseudo-random triples in [0,1)^3, and rapid float32 triples in [-1,2]^3 (a quarter within 1e-7..3e-2 of a landmark of the RGB cube - 0, 1, 1/2, a common grey - by a different amount per component; a quarter with components of independent magnitude 1e-44..1e30 and sign), through ToXYZ, ColorFromXYZ and both round trips. an eighth of the rapid cases directly follow a request outside the domain (non-finite or degenerate arguments) whose answer is ignored. non-trivial = distinct triple with a component outside [0,1] or all three components different")
	ev.Assume("published chromaticities transcribed in internal/ref; equality with published values at the precision of publication (5e-5)")
	ev.Set("tolerances", map[string]float64{"coefficient": 1e-6, "transform": 1.5e-6, "roundtrip": 2e-6, "published": 5e-5})

	ev.ProbeOrders(ev.Pick(10, 200))
	for i := range sp.Spaces {
		staticChecks(&sp.Spaces[i])
	}
	step := ev.Pick(4, 1) // 64^3 or 256^3
	for i := range sp.Spaces {
		a := &sp.Spaces[i]
		bad := map[string]bool{}
		var nt int64
		for r := 0; r < 256; r += step {
			for g := 0; g < 256; g += step {
				for b := 0; b < 256; b += step {
					v := [3]float32{float32(r) / 255, float32(g) / 255, float32(b) / 255}
					if r != g && g != b && r != b {
						nt++
					}
					for _, dir := range []string{"toXYZ", "fromXYZ", "rt-rgb", "rt-xyz"} {
						ev.Eval(1)
						if bad[dir] {
							continue
						}
						c := Case{Space: a.Name, Dir: dir, V: v}
						if k, w := check(c); k != "" {
							bad[dir] = true
							ev.Violation("xyz", a.Name+"/"+k, w, c)
						}
					}
				}
			}
		}
		ev.NTAdd(nt)
		ev.Class(a.Name+"/lattice", int64((256/step)*(256/step)*(256/step)))
	}
	// special values: exact zeros (also -0), tiny, thresholds, out-of-range, in every combination
	sv := []float32{-1, -1e-6, float32(math.Copysign(0, -1)), 0, 1e-6, 0.0031308, 0.5, 1, 2, 1e-30, -1e-40, -1e10, 3e20, -65504}
	for i := range sp.Spaces {
		a := &sp.Spaces[i]
		bad := map[string]bool{}
		for _, x := range sv {
			for _, y := range sv {
				for _, z := range sv {
					for _, dir := range []string{"toXYZ", "fromXYZ", "rt-rgb", "rt-xyz", "mutated"} {
						c := Case{Space: a.Name, Dir: dir, V: [3]float32{x, y, z}}
						ev.Eval(1)
						ev.NT(ev.Hash("special", a.Name, dir, c.V))
						if bad[dir] {
							continue
						}
						if k, w := check(c); k != "" {
							bad[dir] = true
							ev.Violation("xyz", a.Name+"/"+k, w, c)
						}
					}
				}
			}
		}
	}
	// named constants as inputs: the exported white points (as XYZ) and the XYZ / RGB of every space's white and
	// primaries, each also one ulp away in every component - the values a shortcut would be keyed on
	{
		var named [][3]float32
		for _, w := range []ciexyz.Color{ciexyz.D50, ciexyz.D65} {
			named = append(named, [3]float32{w.X, w.Y, w.Z})
		}
		for i := range sp.Spaces {
			a := &sp.Spaces[i]
			for _, e := range [][3]float32{{1, 1, 1}, {1, 0, 0}, {0, 1, 0}, {0, 0, 1}} {
				x := a.ToXYZ(linear.RGB{R: e[0], G: e[1], B: e[2]})
				named = append(named, [3]float32{x.X, x.Y, x.Z}, e)
			}
			w := a.White()
			named = append(named, [3]float32{w.X / w.Y, 1, (1 - w.X - w.Y) / w.Y})
		}
		ulp := func(v float32, d int) float32 {
			switch {
			case d > 0:
				return math.Nextafter32(v, float32(math.Inf(1)))
			case d < 0:
				return math.Nextafter32(v, float32(math.Inf(-1)))
			}
			return v
		}
		var nn int64
		for i := range sp.Spaces {
			a := &sp.Spaces[i]
			bad := map[string]bool{}
			for _, v := range named {
				for _, d := range []int{0, 1, -1} {
					c := Case{Space: a.Name, Dir: "", V: [3]float32{ulp(v[0], d), v[1], ulp(v[2], -d)}}
					for _, dir := range []string{"toXYZ", "fromXYZ", "rt-rgb", "rt-xyz", "mutated"} {
						c.Dir = dir
						ev.Eval(1)
						nn++
						if bad[dir] {
							continue
						}
						if k, w := check(c); k != "" {
							bad[dir] = true
							ev.Violation("xyz", a.Name+"/"+k, w, c)
						}
					}
				}
			}
		}
		ev.NTAdd(nn)
		ev.Class("named-constants", nn)
	}
	ev.Class("special-value-triples", int64(4*len(sv)*len(sv)*len(sv)*4))
	// products at the rounding boundary of a power of two: for every coefficient of both matrices of every space, the
	// component value that makes coefficient*component land within a few float32 steps of 2^k (k = -10..3), alone in
	// its channel - where a product rounds up into the next binade (hand-written multiplies, fused or split
	// arithmetic and table interpolation differ exactly there)
	{
		var nb int64
		for i := range sp.Spaces {
			a := &sp.Spaces[i]
			m := refMats(a)
			for di, mm := range []ref.M3{m.to, m.from} {
				dir := []string{"toXYZ", "fromXYZ"}[di]
				for r := 0; r < 3; r++ {
					for c := 0; c < 3; c++ {
						coef := mm[r][c]
						if coef == 0 {
							continue
						}
						for k := -10; k <= 3; k++ {
							centre := float32(math.Ldexp(1, k) / math.Abs(coef))
							for off := -8; off <= 8; off++ {
								var v [3]float32
								v[c] = steps(centre, off)
								cs := Case{Space: a.Name, Dir: dir, V: v}
								ev.Eval(1)
								nb++
								if kk, w := check(cs); kk != "" {
									ev.Violation("xyz", a.Name+"/"+kk, "product next to a power of two: "+w, cs)
									off, k, c, r = 9, 4, 3, 3
								}
							}
						}
					}
				}
			}
		}
		ev.Class("power-of-two-products", nb)
	}
	// volume: plain pseudo-random triples in [0,1)^3, all spaces and directions, checked like every other case (rare
	// arithmetic corners that no structure predicts: 4 million quick, 100 million thorough)
	{
		x := ev.Seed()*0x9E3779B97F4A7C15 + 0xC03
		next := func() float32 {
			x ^= x << 13
			x ^= x >> 7
			x ^= x << 17
			return float32(x>>40) / (1 << 24)
		}
		n := ev.Pick(4000000, 25000000)
		dirs := []string{"toXYZ", "fromXYZ", "rt-rgb"}
		for i := 0; i < n; i++ {
			cs := Case{Space: sp.Spaces[i&3].Name, Dir: dirs[(i>>2)%3], V: [3]float32{next(), next(), next()}}
			if kk, w := check(cs); kk != "" {
				ev.Violation("xyz", cs.Space+"/"+kk, w, cs)
				break
			}
		}
		ev.Eval(int64(n))
		ev.NTAdd(int64(n))
		ev.Class("volume-random-triples", int64(n))
	}
	// rapid triples in [-1,2]^3
	ev.RapidChecks(ev.Pick(10000, 1000000))
	ev.RapidSeed(3)
	var early []Case
	rapid.Check(t, func(rt *rapid.T) {
		a := &sp.Spaces[rapid.IntRange(0, 3).Draw(rt, "space")]
		dir := rapid.SampledFrom([]string{"toXYZ", "fromXYZ", "rt-rgb", "rt-xyz", "mutated"}).Draw(rt, "dir")
		var v [3]float32
		for i := range v {
			v[i] = rapid.Float32Range(-1, 2).Draw(rt, "v")
		}
		if rapid.IntRange(0, 3).Draw(rt, "wide") == 0 {
			// components of unrelated magnitudes and signs: the maps are linear and not clamped, so the result
			// is within proportional error wherever it is representable (|v| <= 1e30 keeps every product finite)
			for i := range v {
				switch rapid.IntRange(0, 5).Draw(rt, "widekind") {
				case 0:
					v[i] = 0
				case 1: // keep the in-range value
				default:
					v[i] = float32(math.Pow(10, rapid.Float64Range(-44, 30).Draw(rt, "exp10")))
					if rapid.Bool().Draw(rt, "neg") {
						v[i] = -v[i]
					}
				}
			}
		}
		if rapid.IntRange(0, 3).Draw(rt, "near") == 0 {
			// close to a landmark of the RGB cube without being on it: each component within 1e-7 .. 3e-2 of 0, 1, 1/2 or
			// of one common grey level, on either side and by a different amount per component (faintly tinted
			// highlights and shadows, almost-neutral greys, almost-pure primaries)
			grey := rapid.Float32Range(0, 1).Draw(rt, "grey")
			anchors := []float32{0, 1, 0.5, grey}
			corner := rapid.IntRange(0, 3).Draw(rt, "sameanchor") // 0: every component its own landmark
			for i := range v {
				an := anchors[rapid.IntRange(0, 3).Draw(rt, "anchor")]
				if corner == 1 {
					an = 1
				} else if corner == 2 {
					an = grey
				}
				d := float32(math.Pow(10, rapid.Float64Range(-7, -1.5).Draw(rt, "dist")))
				if rapid.Bool().Draw(rt, "above") {
					d = -d
				}
				v[i] = an - d
			}
			if dir == "fromXYZ" || dir == "rt-xyz" {
				// the XYZ value of that colour (reference matrix, rounded to float32)
				x := refMats(a).to.MulV(ref.V3{float64(v[0]), float64(v[1]), float64(v[2])})
				v = [3]float32{float32(x[0]), float32(x[1]), float32(x[2])}
			}
		}
		c := Case{Space: a.Name, Dir: dir, V: v}
		if rapid.IntRange(0, 7).Draw(rt, "afteroutside") == 0 {
			c.After = rapid.IntRange(1, 24).Draw(rt, "outside")
		}
		ev.Eval(1)
		if nontrivial(v) {
			ev.NT(ev.Hash(a.Name, dir, v))
		}
		if ev.SampleN() < 4 {
			ev.Sample(c)
		}
		if len(early) < 400 {
			early = append(early, c)
		}
		if k, w := check(c); k != "" {
			ev.Fail(rt, "xyz", a.Name+"/"+k, w, c)
		}
	})
	// the first 400 generated cases once more, after everything else has been asked: what the library may have
	// remembered in the meantime (memos, caches that filled up and evicted, adapted sizes) must not change them
	for _, c := range early {
		ev.Eval(1)
		if k, w := check(c); k != "" {
			ev.Violation("xyz", c.Space+"/"+k, "asked again after many other calls: "+w, c)
			break
		}
	}
	ev.Set("worst_error_over_tolerance", worst)
	if ev.Violations() > 0 {
		t.Fail()
	}
}

func near(a, b, tol float64) bool { return math.Abs(a-b) <= tol }

// staticChecks: declared values vs published; probed coefficients vs independent derivation.
func staticChecks(a *sp.API) {
	r, g, b, w := declared(a)
	pub := ref.Published[a.Ref]
	cmp := func(name string, got, want ref.XY) {
		ev.Eval(1)
		if !near(got.X, want.X, 5e-5) || !near(got.Y, want.Y, 5e-5) {
			ev.Violation("declared", a.Name+"/declared-"+name, fmt.Sprintf("%s declares %s chromaticity (%.6f, %.6f); published (%.4f, %.4f)", a.Name, name, got.X, got.Y, want.X, want.Y), Case{Space: a.Name, Dir: "declared"})
		}
	}
	cmp("red", r, pub.R)
	cmp("green", g, pub.G)
	cmp("blue", b, pub.B)
	cmp("white", w, pub.W)
	if yy := [4]float32{a.PrimR().YY, a.PrimG().YY, a.PrimB().YY, a.White().YY}; yy != [4]float32{1, 1, 1, 1} {
		ev.Violation("declared", a.Name+"/declared-Y", fmt.Sprintf("%s declared luminances %v, want 1", a.Name, yy), Case{Space: a.Name, Dir: "declared"})
	}
	m := refMats(a)
	// probe coefficients
	basis := [3][3]float32{{1, 0, 0}, {0, 1, 0}, {0, 0, 1}}
	var to, from ref.M3
	for j, e := range basis {
		x := a.ToXYZ(linear.RGB{R: e[0], G: e[1], B: e[2]})
		to[0][j], to[1][j], to[2][j] = float64(x.X), float64(x.Y), float64(x.Z)
		c := a.FromXYZ(ciexyz.Color{X: e[0], Y: e[1], Z: e[2]})
		from[0][j], from[1][j], from[2][j] = float64(c.R), float64(c.G), float64(c.B)
	}
	for i := 0; i < 3; i++ {
		for j := 0; j < 3; j++ {
			ev.Eval(2)
			ev.NTAdd(2)
			if !near(to[i][j], m.to[i][j], 1e-6) {
				ev.Violation("coeff", a.Name+"/coeff-toXYZ", fmt.Sprintf("%s RGB->XYZ coefficient [%d][%d] = %.9g, derived from declared chromaticities %.9g", a.Name, i, j, to[i][j], m.to[i][j]), Case{Space: a.Name, Dir: "coeff"})
			}
			if !near(from[i][j], m.from[i][j], 1e-6) {
				ev.Violation("coeff", a.Name+"/coeff-fromXYZ", fmt.Sprintf("%s XYZ->RGB coefficient [%d][%d] = %.9g, reference %.9g", a.Name, i, j, from[i][j], m.from[i][j]), Case{Space: a.Name, Dir: "coeff"})
			}
		}
	}
	// white: (1,1,1) -> white with Y=1; unit primaries -> declared chromaticity
	wx := a.ToXYZ(linear.RGB{R: 1, G: 1, B: 1})
	wantW := ref.XYZOf(w, 1)
	ev.Eval(1)
	if !near(float64(wx.X), wantW[0], 1e-6) || !near(float64(wx.Y), 1, 1e-6) || !near(float64(wx.Z), wantW[2], 1e-6) {
		ev.Violation("coeff", a.Name+"/white", fmt.Sprintf("%s (1,1,1) -> (%.8g,%.8g,%.8g), white point XYZ (%.8g,1,%.8g)", a.Name, wx.X, wx.Y, wx.Z, wantW[0], wantW[2]), Case{Space: a.Name, Dir: "coeff"})
	}
	for j, p := range []ref.XY{r, g, b} {
		e := basis[j]
		x := a.ToXYZ(linear.RGB{R: e[0], G: e[1], B: e[2]})
		s := float64(x.X) + float64(x.Y) + float64(x.Z)
		ev.Eval(1)
		if !near(float64(x.X)/s, p.X, 1e-6) || !near(float64(x.Y)/s, p.Y, 1e-6) {
			ev.Violation("coeff", a.Name+"/primary", fmt.Sprintf("%s unit primary %d has chromaticity (%.8g, %.8g), declared (%.8g, %.8g)", a.Name, j, float64(x.X)/s, float64(x.Y)/s, p.X, p.Y), Case{Space: a.Name, Dir: "coeff"})
		}
	}
	if ev.SampleN() < 8 {
		ev.Sample(map[string]any{"space": a.Name, "probed_RGB_to_XYZ": to, "reference_from_declared_chromaticities": m.to})
	}
}
