// C04 — cross-space pixel conversion vs an independent colorimetric reference.
package c04

import (
	"fmt"
	"github.com/mandykoh/prism/linear"
	"image/color"
	"math"
	"sync"
	"sync/atomic"
	"testing"

	"github.com/mandykoh/prism/ciexyy"
	"github.com/mandykoh/prism/ciexyz"
	"pgregory.net/rapid"

	"verif/internal/ev"
	"verif/internal/ref"
	"verif/internal/sp"
)

func TestMain(m *testing.M) { ev.Main(m, "C04", "exploration") }

type Case struct {
	Src string `json:"src"`
	Dst string `json:"dst"`
	R   uint8  `json:"r"`
	G   uint8  `json:"g"`
	B   uint8  `json:"b"`
	A   uint8  `json:"a"`
	// Via: which constructors/encoders carry the opaque pixel through the same pipeline ("" = ColorFromNRGBA ->
	// ToNRGBA): "rgba" ColorFromRGBA -> ToRGBA, "encoded" ColorFromEncodedColor(color.NRGBA) -> ToNRGBA,
	// "encoded64" ColorFromEncodedColor(color.NRGBA64 of 257*v) -> ToRGBA64 (compared in 8-bit code units).
	// Used with alpha 255 only, where premultiplied and non-premultiplied pixels coincide.
	Via string `json:"via,omitempty"`
	// Before: conversions made immediately before this one, in order (results ignored) - the same pixel on its way to
	// other destinations: a picture exported to several spaces pixel by pixel
	Before []Case `json:"before,omitempty"`
}

func idx(name string) int {
	for i := range sp.Spaces {
		if sp.Spaces[i].Name == name {
			return i
		}
	}
	return -1
}

// the documented pipeline (README "Colour conversion" / "Chromatic adaptation")
func pipelineVia(s, d *sp.API, p color.NRGBA, via string) (out [3]float64, alphaOut float64) {
	var c linear.RGB
	var alpha float32
	switch via {
	case "rgba":
		c, alpha = s.FromRGBA(color.RGBA{R: p.R, G: p.G, B: p.B, A: p.A})
	case "encoded":
		c, alpha = s.FromEncoded(p)
	case "encoded64":
		c, alpha = s.FromEncoded(color.NRGBA64{R: uint16(p.R) * 257, G: uint16(p.G) * 257, B: uint16(p.B) * 257, A: uint16(p.A) * 257})
	default:
		c, alpha = s.FromNRGBA(p)
	}
	xyz := s.ToXYZ(c)
	if via == "adapt-xyz-constants" && s.White() != d.White() {
		xyz = ciexyz.AdaptBetweenXYZWhitePoints(whiteConst(s), whiteConst(d)).Apply(xyz)
	} else if via == "adapt-white-from-space" && s.White() != d.White() {
		xyz = ciexyz.AdaptBetweenXYZWhitePoints(whiteOf(s), whiteOf(d)).Apply(xyz)
	} else if s.White() != d.White() || via == "adapt-always" {
		xyz = ciexyz.AdaptBetweenXYYWhitePoints(s.White(), d.White()).Apply(xyz)
	}
	dc := d.FromXYZ(xyz)
	switch via {
	case "rgba":
		o := d.ToRGBA(dc, alpha)
		return [3]float64{float64(o.R), float64(o.G), float64(o.B)}, float64(o.A)
	case "encoded64":
		o := d.ToRGBA64(dc, alpha)
		return [3]float64{float64(o.R) / 257, float64(o.G) / 257, float64(o.B) / 257}, float64(o.A) / 257
	}
	o := d.ToNRGBA(dc, alpha)
	return [3]float64{float64(o.R), float64(o.G), float64(o.B)}, float64(o.A)
}

// whiteConst returns the package's XYZ constant for a space's white (ciexyz.D50 / ciexyz.D65), which is what a
// caller who builds the adaptation from XYZ values writes.
func whiteConst(a *sp.API) ciexyz.Color {
	if a.White() == ciexyy.D50 {
		return ciexyz.D50
	}
	return ciexyz.D65
}

// whiteOf: the XYZ a space itself gives for its white (1,1,1) - what a caller writes who does not want to name an
// illuminant (float32 arithmetic: Y comes out as 1 or a neighbour of 1)
func whiteOf(a *sp.API) ciexyz.Color { return a.ToXYZ(a.FromLinear(1, 1, 1)) }

func pipeline(s, d *sp.API, p color.NRGBA) color.NRGBA {
	c, alpha := s.FromNRGBA(p)
	xyz := s.ToXYZ(c)
	if s.White() != d.White() {
		xyz = ciexyz.AdaptBetweenXYYWhitePoints(s.White(), d.White()).Apply(xyz)
	}
	return d.ToNRGBA(d.FromXYZ(xyz), alpha)
}

type pairRef struct {
	lut     [256]float64
	m       ref.M3
	ms, mdi ref.M3 // source RGB->XYZ and destination XYZ->RGB alone
	adapt   bool
}

var pairRefs [4][4]*pairRef
var prMu sync.Mutex

func xy(c interface{}) ref.XY { return ref.XY{} }

func getRef(si, di int) *pairRef {
	prMu.Lock()
	defer prMu.Unlock()
	if pairRefs[si][di] != nil {
		return pairRefs[si][di]
	}
	s, d := &sp.Spaces[si], &sp.Spaces[di]
	pr := &pairRef{}
	for i := range pr.lut {
		pr.lut[i] = ref.EOTF(s.Ref, float64(i)/255)
	}
	mk := func(a *sp.API) (ref.M3, ref.XY) {
		r, g, b, w := a.PrimR(), a.PrimG(), a.PrimB(), a.White()
		W := ref.XY{X: float64(w.X), Y: float64(w.Y)}
		m, _ := ref.RGBToXYZ(ref.XY{X: float64(r.X), Y: float64(r.Y)}, ref.XY{X: float64(g.X), Y: float64(g.Y)}, ref.XY{X: float64(b.X), Y: float64(b.Y)}, W)
		return m, W
	}
	ms, ws := mk(s)
	md, wd := mk(d)
	mdi, _ := md.Inv()
	pr.ms, pr.mdi = ms, mdi
	if ws != wd {
		pr.adapt = true
		pr.m = mdi.Mul(ref.Bradford(ref.XYZOf(ws, 1), ref.XYZOf(wd, 1))).Mul(ms)
	} else {
		pr.m = mdi.Mul(ms)
	}
	pairRefs[si][di] = pr
	return pr
}

const halfStep = 1.0/1022 + 5e-6
const slack = 255.0 / (1 << 22)

// bounds of admissible destination codes for reference linear value v.
func bounds(d ref.Space, v float64) (lo, hi float64) {
	lo = 255*ref.OETF(d, v-halfStep) - 0.5 - slack
	hi = 255*ref.OETF(d, v+halfStep) + 0.5 + slack
	return
}

// check returns kind/what and whether the case is non-trivial.
func check(c Case) (kind, what string, nt bool) {
	si, di := idx(c.Src), idx(c.Dst)
	s, d := &sp.Spaces[si], &sp.Spaces[di]
	pr := getRef(si, di)
	var got [3]float64
	var outA float64
	for _, b := range c.Before {
		bs, bd := &sp.Spaces[idx(b.Src)], &sp.Spaces[idx(b.Dst)]
		ev.Guard(func() { pipelineVia(bs, bd, color.NRGBA{R: b.R, G: b.G, B: b.B, A: b.A}, b.Via) })
	}
	if p, msg := ev.Guard(func() { got, outA = pipelineVia(s, d, color.NRGBA{R: c.R, G: c.G, B: c.B, A: c.A}, c.Via) }); p {
		return "panic", msg, true
	}
	m := pr.m
	if c.Via == "adapt-white-from-space" && pr.adapt {
		ws, wd := whiteOf(s), whiteOf(d)
		m = pr.mdi.Mul(ref.Bradford(ref.V3{float64(ws.X), float64(ws.Y), float64(ws.Z)}, ref.V3{float64(wd.X), float64(wd.Y), float64(wd.Z)})).Mul(pr.ms)
	}
	if c.Via == "adapt-xyz-constants" && pr.adapt {
		// the same pipeline with the adaptation built between the package's XYZ white constants
		ws, wd := whiteConst(s), whiteConst(d)
		m = pr.mdi.Mul(ref.Bradford(ref.V3{float64(ws.X), float64(ws.Y), float64(ws.Z)}, ref.V3{float64(wd.X), float64(wd.Y), float64(wd.Z)})).Mul(pr.ms)
	}
	lin := m.MulV(ref.V3{pr.lut[c.R], pr.lut[c.G], pr.lut[c.B]})
	nt = pr.adapt
	for i := 0; i < 3; i++ {
		if lin[i] < 0 || lin[i] > 1 {
			nt = true
		}
		lo, hi := bounds(d.Ref, lin[i])
		if got[i] < lo || got[i] > hi {
			k := "channel"
			if (lin[i] > 1.01 && got[i] < 128) || (lin[i] < -0.01 && got[i] > 128) {
				k = "wrap"
			}
			return k, fmt.Sprintf("%s->%s pixel (%d,%d,%d,a=%d)%s: channel %d = %.4g, reference linear %.7f admits codes [%.3f, %.3f]", c.Src, c.Dst, c.R, c.G, c.B, c.A, viaNote(c.Via), i, got[i], lin[i], lo, hi), true
		}
	}
	if outA != float64(c.A) {
		return "alpha", fmt.Sprintf("%s->%s pixel (%d,%d,%d,a=%d)%s: alpha out %v", c.Src, c.Dst, c.R, c.G, c.B, c.A, viaNote(c.Via), outA), true
	}
	return "", "", nt
}

// otherWork: what else an application does with the library between conversions - adaptations between the same
// chromaticities at other luminances (whites given on a 0..100 scale, a dimmed white, one left at zero), Lab
// conversions, a custom space's matrices.  Answers are ignored; the pipeline's results must not depend on them.
func otherWork(i int) {
	lums := []float32{100, 0.5, 0, 2, 1e-3}
	ws := []ciexyy.Color{ciexyy.D65, ciexyy.D50}
	ev.Guard(func() {
		a, b := ws[i%2], ws[(i+1)%2]
		a.YY = lums[i%len(lums)]
		ciexyz.AdaptBetweenXYYWhitePoints(a, b).Apply(ciexyz.Color{X: 0.3, Y: 0.4, Z: 0.5})
		b.YY = lums[(i+2)%len(lums)]
		ciexyz.AdaptBetweenXYYWhitePoints(ws[i%2], b)
		ciexyz.AdaptBetweenXYZWhitePoints(ciexyz.Color{X: 95.047, Y: 100, Z: 108.883}, ciexyz.D50)
		ciexyz.Color{X: 0.2, Y: 0.3, Z: 0.1}.ToLAB(ciexyz.D50)
		ciexyz.TransformToXYZForXYYPrimaries(ciexyy.Color{X: 0.7, Y: 0.29, YY: 1}, ciexyy.Color{X: 0.2, Y: 0.7, YY: 1}, ciexyy.Color{X: 0.14, Y: 0.05, YY: 1}, ciexyy.D50)
	})
}

func viaNote(v string) string {
	if v == "" {
		return ""
	}
	return " via " + v
}

// "adapt-always": the default constructors, with the adaptation step applied whether or not the white points differ
// (between equal whites it is the identity)
// "adapt-xyz-constants": the adaptation built with AdaptBetweenXYZWhitePoints from ciexyz.D50 / ciexyz.D65
// "adapt-white-from-space": the adaptation built from the XYZ each space gives for its own white
var vias = []string{"rgba", "encoded", "encoded64", "adapt-always", "adapt-xyz-constants", "adapt-white-from-space"}

func TestC04(t *testing.T) {
	if ev.Replaying() != nil {
		var c Case
		if err := ev.ReplayCase(&c); err != nil {
			t.Fatal(err)
		}
		if k, w, _ := check(c); k != "" {
			ev.Fail(t, "pipeline", c.Src+"->"+c.Dst+"/"+k, w, c)
		}
		// the run that found the case had converted between every pair of spaces, in every variant, before: do a
		// little of each and ask again (state carried from one conversion to the next)
		for i := range sp.Spaces {
			for j := range sp.Spaces {
				otherWork(i*4 + j)
				for _, via := range append([]string{""}, vias...) {
					check(Case{Src: sp.Spaces[i].Name, Dst: sp.Spaces[j].Name, R: 10, G: 200, B: 90, A: 255, Via: via})
				}
			}
		}
		if k, w, _ := check(c); k != "" {
			ev.Fail(t, "pipeline", c.Src+"->"+c.Dst+"/"+k, "after conversions between every pair of spaces: "+w, c)
		}
		fmt.Println("REPLAY case passed:", c)
		return
	}
	ev.Rule("16 ordered (source,destination) pairs x NRGBA pixels through the README pipeline (opaque pixels also through ColorFromRGBA/ToRGBA, ColorFromEncodedColor of NRGBA and NRGBA64, ToRGBA64, with the adaptation step applied unconditionally - the identity between equal whites - with the adaptation built from the package's XYZ white constants, and from the XYZ each space gives for its own white). quick: 64^3 lattice incl. 0 and 255, all greys, the six cube faces at stride 3, all 256 alphas on 64 colours, rapid pixels (a third directly after the same pixel's conversion to other destinations), and a 12^3 (thorough 33^3) lattice of pixels each sent to every destination in turn on one goroutine; thorough: all 2^24 RGB at alpha 255 per pair plus 256 alphas x 4096 colours. non-trivial = distinct (pair, pixel) whose reference result is out of gamut in some channel or whose pair needs chromatic adaptation")
	ev.Assume("internal/ref EOTF/OETF, matrix derivation from the declared chromaticities, Bradford adaptation")
	ev.Set("interval", map[string]float64{"half_step": halfStep, "half_code": 0.5, "slack_codes": slack})
	var sampleMu sync.Mutex
	for si := range sp.Spaces {
		for di := range sp.Spaces {
			s, d := &sp.Spaces[si], &sp.Spaces[di]
			pair := s.Name + "->" + d.Name
			otherWork(si*4 + di)
			var bad int32
			var nts, evals int64
			run := func(c Case) {
				atomic.AddInt64(&evals, 1)
				if atomic.LoadInt32(&bad) != 0 {
					return
				}
				k, w, nt := check(c)
				if nt {
					atomic.AddInt64(&nts, 1)
				}
				if k != "" {
					if atomic.CompareAndSwapInt32(&bad, 0, 1) {
						ev.Violation("pipeline", pair+"/"+k, w, c)
					}
				}
			}
			var wg sync.WaitGroup
			step := 1
			vals := make([]int, 0, 256)
			if !ev.Thorough() {
				step = 4
			}
			for v := 0; v < 256; v += step {
				vals = append(vals, v)
			}
			if vals[len(vals)-1] != 255 {
				vals = append(vals, 255)
			}
			sem := make(chan struct{}, 16)
			for _, r := range vals {
				wg.Add(1)
				sem <- struct{}{}
				go func(r int) {
					defer wg.Done()
					defer func() { <-sem }()
					for _, g := range vals {
						for _, b := range vals {
							run(Case{Src: s.Name, Dst: d.Name, R: uint8(r), G: uint8(g), B: uint8(b), A: 255})
						}
					}
				}(r)
			}
			wg.Wait()
			if !ev.Thorough() {
				for v := 0; v < 256; v++ {
					run(Case{Src: s.Name, Dst: d.Name, R: uint8(v), G: uint8(v), B: uint8(v), A: 255})
				}
				for _, f := range []int{0, 255} {
					for u := 0; u < 256; u += 3 {
						for w := 0; w < 256; w += 3 {
							run(Case{Src: s.Name, Dst: d.Name, R: uint8(f), G: uint8(u), B: uint8(w), A: 255})
							run(Case{Src: s.Name, Dst: d.Name, R: uint8(u), G: uint8(f), B: uint8(w), A: 255})
							run(Case{Src: s.Name, Dst: d.Name, R: uint8(u), G: uint8(w), B: uint8(f), A: 255})
						}
					}
				}
			}
			// the other constructors and encoders on a coarser lattice of opaque pixels (17^3 quick, 52^3 thorough)
			vstep := ev.Pick(16, 5)
			for _, via := range vias {
				for r := 0; r < 256+vstep; r += vstep {
					for g := 0; g < 256+vstep; g += vstep {
						for b := 0; b < 256+vstep; b += vstep {
							m := func(v int) uint8 {
								if v > 255 {
									return 255
								}
								return uint8(v)
							}
							run(Case{Src: s.Name, Dst: d.Name, R: m(r), G: m(g), B: m(b), A: 255, Via: via})
						}
					}
				}
			}
			// alpha sweep: alpha passes through and does not influence the colour channels
			ncol := ev.Pick(64, 4096)
			for k := 0; k < ncol && atomic.LoadInt32(&bad) == 0; k++ {
				h := uint32(k)*2654435761 + uint32(ev.Seed())*40503
				r, g, b := uint8(h), uint8(h>>8), uint8(h>>16)
				base := pipeline(s, d, color.NRGBA{R: r, G: g, B: b, A: 255})
				for a := 0; a < 256; a++ {
					evals++
					out := pipeline(s, d, color.NRGBA{R: r, G: g, B: b, A: uint8(a)})
					if out.A != uint8(a) || out.R != base.R || out.G != base.G || out.B != base.B {
						c := Case{Src: s.Name, Dst: d.Name, R: r, G: g, B: b, A: uint8(a)}
						ev.Violation("pipeline", pair+"/alpha", fmt.Sprintf("%s pixel (%d,%d,%d) alpha %d -> %v; with alpha 255 -> %v", pair, r, g, b, a, out, base), c)
						atomic.StoreInt32(&bad, 1)
						break
					}
				}
			}
			ev.Eval(evals)
			ev.NTAdd(nts)
			ev.Class(pair, evals)
			sampleMu.Lock()
			if si != di && ev.SampleN() < 6 {
				c := Case{Src: s.Name, Dst: d.Name, R: 255, G: 0, B: 128, A: 200}
				o := pipeline(s, d, color.NRGBA{R: 255, G: 0, B: 128, A: 200})
				pr := getRef(si, di)
				lin := pr.m.MulV(ref.V3{pr.lut[255], pr.lut[0], pr.lut[128]})
				ev.Sample(map[string]any{"case": c, "out": o, "reference_linear": lin})
			}
			sampleMu.Unlock()
		}
	}
	// one pixel to every destination in turn (a picture exported to several spaces pixel by pixel), on one goroutine:
	// each conversion directly follows the same pixel's conversion to another destination
	{
		var chain, chainNT int64
		cstep := ev.Pick(24, 8)
		stop := false
		for si := 0; si < len(sp.Spaces) && !stop; si++ {
			for _, via := range []string{"", "adapt-always", "rgba", "adapt-xyz-constants"} {
				for r := 0; r < 256+cstep && !stop; r += cstep {
					for g := 0; g < 256+cstep && !stop; g += cstep {
						for b := 0; b < 256+cstep && !stop; b += cstep {
							m := func(v int) uint8 {
								if v > 255 {
									return 255
								}
								return uint8(v)
							}
							var prev *Case
							order := []int{0, 1, 2, 3, 2, 1, 0}
							if (r+g+b)/cstep%2 == 1 {
								order = []int{3, 1, 0, 2, 3}
							}
							for _, di := range order {
								c := Case{Src: sp.Spaces[si].Name, Dst: sp.Spaces[di].Name, R: m(r), G: m(g), B: m(b), A: 255, Via: via}
								chain++
								k, w, nt := check(c) // the predecessor has just run: no need to run it again here
								if nt {
									chainNT++
								}
								if k != "" {
									if prev != nil {
										c.Before = []Case{*prev}
										w += fmt.Sprintf(" - directly after the same pixel went %s->%s", prev.Src, prev.Dst)
									}
									ev.Violation("pipeline", c.Src+"->"+c.Dst+"/"+k, w, c)
									stop = true
									break
								}
								cc := c
								prev = &cc
							}
						}
					}
				}
			}
		}
		ev.Eval(chain)
		ev.NTAdd(chainNT)
		ev.Class("one-pixel-to-every-destination-in-turn", chain)
	}
	ev.RapidChecks(ev.Pick(20000, 200000))
	ev.RapidSeed(4)
	rapid.Check(t, func(rt *rapid.T) {
		c := Case{
			Src: sp.Spaces[rapid.IntRange(0, 3).Draw(rt, "src")].Name,
			Dst: sp.Spaces[rapid.IntRange(0, 3).Draw(rt, "dst")].Name,
			R:   rapid.Uint8().Draw(rt, "r"), G: rapid.Uint8().Draw(rt, "g"), B: rapid.Uint8().Draw(rt, "b"), A: rapid.Uint8().Draw(rt, "a"),
		}
		if rapid.IntRange(0, 2).Draw(rt, "othervia") == 0 {
			c.Via, c.A = rapid.SampledFrom(vias).Draw(rt, "via"), 255
		}
		// a third of the cases directly follow the same pixel's conversion to one or two other destinations
		if rapid.IntRange(0, 2).Draw(rt, "chained") == 0 {
			for n := rapid.IntRange(1, 2).Draw(rt, "nbefore"); n > 0; n-- {
				b := c
				b.Before = nil
				b.Dst = sp.Spaces[rapid.IntRange(0, 3).Draw(rt, "beforedst")].Name
				if c.A == 255 && rapid.Bool().Draw(rt, "beforevia") {
					b.Via = rapid.SampledFrom(vias).Draw(rt, "bvia")
				}
				c.Before = append(c.Before, b)
			}
		}
		ev.Eval(1)
		k, w, nt := check(c)
		if nt {
			ev.NT(ev.Hash("rapid", c))
		}
		if k != "" {
			ev.Fail(rt, "pipeline", c.Src+"->"+c.Dst+"/"+k, w, c)
		}
	})
	if ev.Thorough() {
		ev.Set("exhaustive", true)
		ev.Set("exhaustive_scope", "all 2^24 RGB values at alpha 255 for each of the 16 pairs")
	}
	if ev.Violations() > 0 {
		t.Fail()
	}
	_ = math.Pi
}
