// C15 — image type conversion helpers equal image/draw.Draw(..., draw.Src).
package c15

import (
	"bytes"
	"fmt"
	"image"
	"image/color"
	"image/draw"
	"runtime"
	"testing"

	prism "github.com/mandykoh/prism"
	"pgregory.net/rapid"

	"verif/internal/ev"
	"verif/internal/img"
)

func TestMain(m *testing.M) { ev.Main(m, "C15", "exploration") }

type Case struct {
	Src    img.Spec `json:"src"`
	Helper string   `json:"helper"` // NRGBA RGBA RGBA64
	Par    int      `json:"parallelism"`
}

func pix(m image.Image) (pix []uint8, stride int, r image.Rectangle) {
	switch v := m.(type) {
	case *image.NRGBA:
		return v.Pix, v.Stride, v.Rect
	case *image.RGBA:
		return v.Pix, v.Stride, v.Rect
	case *image.RGBA64:
		return v.Pix, v.Stride, v.Rect
	}
	return nil, 0, image.Rectangle{}
}

func check(c Case) (kind, what string, nt bool) {
	ev.Journal("convert", c)
	b := img.Build(c.Src)
	kind, what, nt = checkOnce(c, b)
	if kind != "" {
		return
	}
	// the same image value again after its pixels (or its palette) were changed in place: palette cycling, a
	// reused frame buffer.  Anything remembered about the image from the first call is stale now.
	if c.Src.Type == "Paletted" || ev.Hash(c)%3 == 0 {
		changeInPlace(b)
		if k, w, _ := checkOnce(c, b); k != "" {
			return k, "after the image was changed in place and converted a second time: " + w, nt
		}
	}
	return
}

// changeInPlace edits the image's own buffers (and palette) without replacing them.
func changeInPlace(b img.Built) {
	if p, ok := img.Unwrap(b.Img).(*image.Paletted); ok {
		for i := range p.Palette {
			r, g, bl, a := p.Palette[i].RGBA()
			p.Palette[i] = color.NRGBA64{R: uint16(bl) ^ 0x1357, G: uint16(r), B: uint16(g) ^ 0xFF00, A: uint16(a) | 0x8000}
		}
		return
	}
	for _, buf := range b.Bufs {
		for i := range *buf {
			(*buf)[i] ^= byte(0x5A + i%7)
		}
	}
}

func checkOnce(c Case, b img.Built) (kind, what string, nt bool) {
	before := b.Snapshot()
	var got, want image.Image
	bounds := b.Img.Bounds()
	same := false
	pn, msg := ev.Guard(func() {
		switch c.Helper {
		case "NRGBA":
			o := prism.ConvertImageToNRGBA(b.Img, c.Par)
			w := image.NewNRGBA(bounds)
			draw.Draw(w, w.Rect, b.Img, bounds.Min, draw.Src)
			got, want = o, w
			if in, ok := b.Img.(*image.NRGBA); ok {
				same = true
				if in != o {
					kind, what = "same-instance", "NRGBA input not returned as the same instance"
				}
			}
		case "RGBA":
			o := prism.ConvertImageToRGBA(b.Img, c.Par)
			w := image.NewRGBA(bounds)
			draw.Draw(w, w.Rect, b.Img, bounds.Min, draw.Src)
			got, want = o, w
			if in, ok := b.Img.(*image.RGBA); ok {
				same = true
				if in != o {
					kind, what = "same-instance", "RGBA input not returned as the same instance"
				}
			}
		case "RGBA64":
			o := prism.ConvertImageToRGBA64(b.Img, c.Par)
			w := image.NewRGBA64(bounds)
			draw.Draw(w, w.Rect, b.Img, bounds.Min, draw.Src)
			got, want = o, w
			if in, ok := b.Img.(*image.RGBA64); ok {
				same = true
				if in != o {
					kind, what = "same-instance", "RGBA64 input not returned as the same instance"
				}
			}
		}
	})
	if pn {
		return "panic", msg, true
	}
	if kind != "" {
		return kind, what, true
	}
	concrete := !c.Src.Wrap
	hand := concrete && ((c.Src.Type == "YCbCr" && c.Helper != "RGBA") || (c.Src.Type == "RGBA64" && c.Helper == "RGBA") ||
		((c.Src.Type == "NRGBA" || c.Src.Type == "RGBA") && c.Helper == "RGBA64"))
	rows := bounds.Dy()
	nt = hand || bounds.Min != (image.Point{}) || c.Par > rows
	after := b.Snapshot()
	for i := range before {
		if !bytes.Equal(before[i], after[i]) {
			return "input-modified", fmt.Sprintf("input buffer %d modified by ConvertImageTo%s", i, c.Helper), nt
		}
	}
	if same {
		return "", "", nt
	}
	gp, gs, gr := pix(got)
	wp, ws, wr := pix(want)
	if gr != bounds {
		return "bounds", fmt.Sprintf("ConvertImageTo%s result bounds %v, input bounds %v", c.Helper, gr, bounds), nt
	}
	if gr != wr || gs != ws || !bytes.Equal(gp, wp) {
		// locate the first differing pixel
		bpp := 4
		if c.Helper == "RGBA64" {
			bpp = 8
		}
		for i := 0; i < len(gp) && i < len(wp); i++ {
			if gp[i] != wp[i] {
				x, y := (i%gs)/bpp+gr.Min.X, i/gs+gr.Min.Y
				return "pixel", fmt.Sprintf("ConvertImageTo%s(%s %v, parallelism %d): pixel (%d,%d) byte %d = %#x, draw.Draw gives %#x (source colour %v)", c.Helper, c.Src.Type, bounds, c.Par, x, y, i%bpp, gp[i], wp[i], b.Img.At(x, y)), nt
			}
		}
		return "layout", fmt.Sprintf("ConvertImageTo%s: stride/len differ: got stride %d len %d, want stride %d len %d", c.Helper, gs, len(gp), ws, len(wp)), nt
	}
	return "", "", nt
}

func genPar(rt *rapid.T, rows int) int {
	return rapid.SampledFrom(parChoices(rows)).Draw(rt, "parallelism")
}

// fresh-process probes (see ev.ProbeOrders): the FIRST conversion of a process - of each source type, through each
// helper, at each parallelism - and the ones that follow it.  What the first call sets up (tables, pools, worker
// state sized by its parallelism) serves the rest of the process.
func init() {
	for _, par := range []int{1, 2, 3, 6, 7, 16, 300} {
		for _, typ := range []string{"RGBA", "NRGBA", "RGBA64", "NRGBA64", "YCbCr", "Paletted", "Gray"} {
			for _, helper := range []string{"NRGBA", "RGBA", "RGBA64"} {
				par, typ, helper := par, typ, helper
				ev.RegisterProbe(fmt.Sprintf("first-%s-to-%s-par%d", typ, helper, par), func() string {
					// a ramp with every alpha value near the ends and in the middle, then prng content
					for i, fill := range []string{"ramp", "prng", "ff"} {
						c := Case{Src: img.Spec{Type: typ, Rect: [4]int{0, 0, 64, 12}, Parent: [4]int{0, 0, 64, 12}, Fill: fill, Seed: uint64(7 + i), PalN: 256}, Helper: helper, Par: par}
						if k, w, _ := check(c); k != "" {
							return w
						}
					}
					return ""
				})
			}
		}
	}
}

func TestC15(t *testing.T) {
	if ev.Replaying() != nil {
		if ev.ReplayOrder(t) {
			return
		}
		var c Case
		if err := ev.ReplayCase(&c); err != nil {
			t.Fatal(err)
		}
		if k, w, _ := check(c); k != "" {
			ev.Fail(t, "convert", c.Helper+"/"+k, w, c)
		}
		fmt.Println("REPLAY case passed")
		return
	}
	ev.Rule("fresh-process probes: the first conversion of a process for 7 source types x 3 helpers x parallelism {1,2,3,6,7,16,300}, each probe once as the first action of a process, plus generated orders and environment presets; rapid: source image of every standard type (RGBA64, NRGBA64, RGBA, NRGBA, YCbCr x 6 subsamplings, NYCbCrA, Gray, Gray16, Alpha, Alpha16, CMYK, Paletted, opaque wrapper), width/height 0..9, origin in [-6,6]^2 (non-negative for YCbCr, plus fixed YCbCr pictures of every subsampling at even negative origins with a positive far corner, where the standard library's chroma offsets are in range), optionally a sub-image of a larger parent, pixel bytes prng/0xff/0/ramp; parallelism in {1,2,3,7,16,rows+5}; 3 helpers. Plus 128x96 crops of 1280x1024 parents near the top, middle and bottom; banners (1-3 rows of 64..20000 pixels, widths around powers of two, non-zero x origins, sub-images; a tenth of the rapid images and a sweep over every type x helper), a fixed cross-product types x helpers x parallelism on awkward geometry, and (thorough) all 2^24 YCbCr triples and every byte value in every channel position. non-trivial = distinct case whose source is handled by a hand-written loop, or has non-zero origin, or parallelism > rows")
	ev.Assume("image/draw.Draw with draw.Src is the reference conversion")
	ev.ProbeOrders(ev.Pick(1, 10))
	// small crops of large parents (a thumbnail region of a 5 MB frame buffer), near the top, the middle and the bottom:
	// same pixels, same instance for the identity helpers, whatever the parent holds besides
	{
		nc := 0
		for ti, typ := range []string{"NRGBA", "RGBA", "RGBA64", "NRGBA64", "YCbCr", "Gray"} {
			for hi, helper := range []string{"NRGBA", "RGBA", "RGBA64"} {
				y0 := []int{30, 500, 920}[(ti+hi)%3]
				c := Case{Src: img.Spec{Type: typ, Ratio: ti % 6, Rect: [4]int{40, y0, 168, y0 + 96}, Parent: [4]int{0, 0, 1280, 1024}, Fill: "prng", Seed: uint64(ti*3+hi) + ev.Seed(), PalN: 256}, Helper: helper, Par: []int{1, 4, 300}[hi]}
				ev.Eval(1)
				nc++
				ev.NT(ev.Hash("bigparent", c))
				if k, w, _ := check(c); k != "" {
					ev.Violation("convert", c.Helper+"/"+k, w, c)
				}
			}
		}
		ev.Class("crops-of-large-parents", int64(nc))
		// wide pictures whose rows come in equal pairs (pixel-doubled art, bands), at several parallelisms
		np := 0
		for ti, typ := range []string{"NRGBA", "RGBA", "RGBA64", "NRGBA64", "YCbCr", "Gray", "Paletted", "CMYK"} {
			for hi, helper := range []string{"NRGBA", "RGBA", "RGBA64"} {
				for _, par := range []int{2, 3, 4} {
					c := Case{Src: img.Spec{Type: typ, Ratio: ti % 6, Rect: [4]int{0, 0, 160, 14}, Parent: [4]int{0, 0, 160, 14}, Fill: "rowpairs", Seed: uint64(ti*9+hi*3+par) + ev.Seed(), PalN: 256}, Helper: helper, Par: par}
					ev.Eval(1)
					np++
					ev.NT(ev.Hash("rowpairs", c))
					if k, w, _ := check(c); k != "" {
						ev.Violation("convert", c.Helper+"/"+k, w, c)
					}
				}
			}
		}
		ev.Class("row-pairs", int64(np))
		// 16-bit pictures widened from 8 bits whose alphas all have the high byte 0xFF (low byte 0x00..0xFF)
		nw := 0
		for ti, typ := range []string{"NRGBA64", "RGBA64"} {
			for hi, helper := range []string{"NRGBA", "RGBA", "RGBA64"} {
				for pi, par := range []int{1, 3, 16} {
					c := Case{Src: img.Spec{Type: typ, Rect: [4]int{0, 0, 96, 40}, Parent: [4]int{0, 0, 96, 40}, Fill: "widened8", Seed: uint64(ti*9+hi*3+pi) + ev.Seed()}, Helper: helper, Par: par}
					ev.Eval(1)
					nw++
					ev.NT(ev.Hash("widened8", c))
					if k, w, _ := check(c); k != "" {
						ev.Violation("convert", c.Helper+"/"+k, w, c)
					}
				}
			}
		}
		ev.Class("widened-from-8-bit-nearly-opaque", int64(nw))
		// subsampled YCbCr pictures whose rectangle starts at even negative coordinates: there the standard library's
		// chroma offsets (truncating division) stay inside the planes, and what YCbCrAt returns is what a conversion yields
		ny := 0
		for ratio := 0; ratio < 6; ratio++ {
			for ri, r := range [][4]int{{-4, -4, 6, 6}, {-8, -2, 5, 7}, {-6, -2, 3, 9}} {
				for hi, helper := range []string{"NRGBA", "RGBA", "RGBA64"} {
					c := Case{Src: img.Spec{Type: "YCbCr", Ratio: ratio, Rect: r, Parent: r, Fill: "prng", Seed: uint64(ratio*9+ri*3+hi) + ev.Seed()}, Helper: helper, Par: []int{1, 3, 16}[(ratio+ri+hi)%3]}
					ev.Eval(1)
					ny++
					ev.NT(ev.Hash("ycc-negative", c))
					if k, w, _ := check(c); k != "" {
						ev.Violation("convert", c.Helper+"/"+k, w, c)
					}
				}
			}
		}
		ev.Class("ycbcr-even-negative-origins", int64(ny))
	}
	// fixed cross product on awkward geometry
	for _, typ := range img.Types {
		ratios := []int{0}
		if typ == "YCbCr" || typ == "NYCbCrA" {
			ratios = []int{0, 1, 2, 3, 4, 5}
		}
		for _, ratio := range ratios {
			for _, helper := range []string{"NRGBA", "RGBA", "RGBA64"} {
				for _, par := range []int{1, 2, 3, 7, 16, 12} {
					for _, wrap := range []bool{false, true} {
						s := img.Spec{Type: typ, Ratio: ratio, Rect: [4]int{3, 5, 10, 28}, Parent: [4]int{1, 2, 13, 30}, Fill: "prng", Seed: ev.Seed() + uint64(par), PalN: 16, Wrap: wrap}
						c := Case{s, helper, par}
						ev.Eval(1)
						k, w, nt := check(c)
						if nt {
							ev.NT(ev.Hash("fixed", c))
						}
						if k != "" {
							ev.Violation("convert", helper+"/"+k, w, c)
						}
					}
				}
			}
		}
	}
	ev.Class("fixed-cross-product", int64(len(img.Types)+10)*3*6*2)
	if ev.Thorough() {
		thoroughExtremes()
	}
	bigImages()
	banners()
	ev.RapidChecks(ev.Pick(6000, 300000))
	ev.RapidSeed(15)
	rapid.Check(t, func(rt *rapid.T) {
		s := img.Gen(rt, "src", img.GenOpts{AllowWrap: true, TallRows: 40, Wide: 6000})
		c := Case{Src: s, Helper: rapid.SampledFrom([]string{"NRGBA", "RGBA", "RGBA64"}).Draw(rt, "helper")}
		c.Par = genPar(rt, s.Rect[3]-s.Rect[1])
		ev.Eval(1)
		k, w, nt := check(c)
		if nt {
			ev.NT(ev.Hash("rapid", c))
		}
		ev.Class("src-"+s.Type, 1)
		if s.IsSub() {
			ev.Class("sub-image", 1)
		}
		if ev.SampleN() < 5 {
			ev.Sample(c)
		}
		if k != "" {
			ev.Fail(rt, "convert", c.Helper+"/"+k, w, c)
		}
	})
	if ev.Violations() > 0 {
		t.Fail()
	}
}

// thoroughExtremes: one 4096x4096 4:4:4 YCbCr image holding all 2^24 (Y,Cb,Cr) triples, and for each
// 8/16-bit source type images in which every byte position takes every value.
func thoroughExtremes() {
	m := image.NewYCbCr(image.Rect(0, 0, 4096, 4096), image.YCbCrSubsampleRatio444)
	for i := 0; i < 1<<24; i++ {
		m.Y[i], m.Cb[i], m.Cr[i] = uint8(i), uint8(i>>8), uint8(i>>16)
	}
	for _, helper := range []string{"NRGBA", "RGBA64"} {
		var got, want image.Image
		pn, msg := ev.Guard(func() {
			if helper == "NRGBA" {
				got = prism.ConvertImageToNRGBA(m, 16)
				w := image.NewNRGBA(m.Rect)
				draw.Draw(w, w.Rect, m, m.Rect.Min, draw.Src)
				want = w
			} else {
				got = prism.ConvertImageToRGBA64(m, 16)
				w := image.NewRGBA64(m.Rect)
				draw.Draw(w, w.Rect, m, m.Rect.Min, draw.Src)
				want = w
			}
		})
		ev.Eval(1 << 24)
		ev.NTAdd(1 << 24)
		if pn {
			ev.Violation("convert", helper+"/panic", msg, map[string]any{"case": "all 2^24 YCbCr triples"})
			continue
		}
		gp, _, _ := pix(got)
		wp, _, _ := pix(want)
		if !bytes.Equal(gp, wp) {
			for i := range gp {
				if gp[i] != wp[i] {
					bpp := len(gp) >> 24
					p := i / bpp
					ev.Violation("convert", helper+"/pixel", fmt.Sprintf("ConvertImageTo%s of YCbCr (Y=%d,Cb=%d,Cr=%d): byte %d = %#x, draw.Draw gives %#x", helper, p&255, (p>>8)&255, (p>>16)&255, i%bpp, gp[i], wp[i]),
						map[string]any{"case": "all 2^24 YCbCr triples", "pixel_index": p})
					break
				}
			}
		}
	}
	ev.Class("ycbcr-all-triples", 2<<24)
	// every byte value in every channel position for the byte-copy fast paths
	for _, typ := range []string{"RGBA64", "NRGBA", "RGBA", "NRGBA64", "CMYK", "Gray", "Gray16", "Alpha16"} {
		for _, helper := range []string{"NRGBA", "RGBA", "RGBA64"} {
			b := img.Build(img.Spec{Type: typ, Rect: [4]int{0, 0, 256, 8}, Parent: [4]int{0, 0, 256, 8}, Fill: "zero"})
			buf := *b.Bufs[0]
			bpp := len(buf) / (256 * 8)
			for y := 0; y < 8; y++ {
				for x := 0; x < 256; x++ {
					o := (y*256 + x) * bpp
					for k := 0; k < bpp; k++ {
						buf[o+k] = 0xFF // opaque / saturated background so premultiplied inputs stay valid-ish
					}
					buf[o+y%bpp] = uint8(x)
				}
			}
			c := Case{b.Spec, helper, 3}
			var got, want image.Image
			pn, msg := ev.Guard(func() {
				bounds := b.Img.Bounds()
				switch helper {
				case "NRGBA":
					got = prism.ConvertImageToNRGBA(b.Img, 3)
					w := image.NewNRGBA(bounds)
					draw.Draw(w, bounds, b.Img, bounds.Min, draw.Src)
					want = w
				case "RGBA":
					got = prism.ConvertImageToRGBA(b.Img, 3)
					w := image.NewRGBA(bounds)
					draw.Draw(w, bounds, b.Img, bounds.Min, draw.Src)
					want = w
				case "RGBA64":
					got = prism.ConvertImageToRGBA64(b.Img, 3)
					w := image.NewRGBA64(bounds)
					draw.Draw(w, bounds, b.Img, bounds.Min, draw.Src)
					want = w
				}
			})
			ev.Eval(2048)
			ev.NTAdd(2048)
			if pn {
				ev.Violation("convert", helper+"/panic", msg, c)
				continue
			}
			gp, _, _ := pix(got)
			wp, _, _ := pix(want)
			if !bytes.Equal(gp, wp) {
				ev.Violation("convert", helper+"/pixel", fmt.Sprintf("every-byte-value image of type %s: ConvertImageTo%s differs from draw.Draw", typ, helper), map[string]any{"type": typ, "helper": helper})
			}
		}
	}
}

// parChoices: the stated set {1,2,3,7,16,rows+5} plus parallelism equal to (and adjacent to) the number of rows
func parChoices(rows int) []int {
	c := []int{1, 2, 3, 7, 16, rows + 5, 32, 33, 64, 255, 256, 257, 1000} // also more workers than a pool, a byte or a small table holds
	for _, p := range []int{rows - 1, rows, rows + 1, 4, 8} {
		if p >= 1 {
			c = append(c, p)
		}
	}
	return c
}

// bigImages: images of 2^16 .. 2^20 pixels with many rows and parallelism 1..32 (or equal to the row count), for
// the source types that have hand-written conversion loops.  Small images cannot expose size thresholds or
// row-partition arithmetic that only goes wrong for particular (height, parallelism) pairs.
func bigImages() {
	x := ev.Seed()*0x9E3779B97F4A7C15 + 15
	next := func(n int) int {
		x ^= x << 13
		x ^= x >> 7
		x ^= x << 17
		return int(x>>33) % n
	}
	types := []string{"RGBA64", "NRGBA", "RGBA", "YCbCr", "YCbCr", "NRGBA64", "Gray16"}
	helpers := []string{"NRGBA", "RGBA", "RGBA64"}
	n := ev.Pick(160, 4000)
	bad := map[string]bool{}
	for i := 0; i < n; i++ {
		total := []int{1 << 16, 1 << 18, 1<<18 + 1, 300000, 1 << 20}[next(5)]
		if !ev.Thorough() && total > 1<<18+1 && i%8 != 0 {
			total = 1 << 18
		}
		h := 64 + next(1985)
		if i%5 == 0 {
			h = []int{480, 512, 1024, 1080, 1200, 1920, 2048}[next(7)]
		}
		w := (total + h - 1) / h
		par := 1 + next(32)
		switch i % 9 {
		case 0:
			par = h
		case 1:
			par = h + 1
		case 2:
			par = []int{11, 13, 22, 26, 49}[next(5)]
		}
		ox, oy := next(7)-3, next(7)-3
		typ := types[next(len(types))]
		if typ == "YCbCr" {
			ox, oy = next(4), next(4)
		}
		c := Case{Src: img.Spec{Type: typ, Ratio: next(6), Rect: [4]int{ox, oy, ox + w, oy + h}, Parent: [4]int{ox, oy, ox + w, oy + h}, Fill: "prng", Seed: uint64(i) + ev.Seed()}, Helper: helpers[next(3)], Par: par}
		ev.Eval(1)
		k, wh, _ := check(c)
		ev.NT(ev.Hash("big", c))
		if k != "" && !bad[k] {
			bad[k] = true
			ev.Violation("convert", c.Helper+"/"+k, wh, c)
		}
	}
	ev.Class("big-images", int64(n))
	// (height, parallelism) sweeps for every hand-written loop: row partitioning must cover every row exactly
	// once for every pair.  Narrow images make the full sweep cheap; the same pairs are then sampled on images
	// of 2^18 pixels (2^20 in thorough) in case a size threshold switches the partitioning scheme.
	combos := [][2]string{{"RGBA64", "RGBA"}, {"NRGBA", "RGBA64"}, {"RGBA", "RGBA64"}, {"YCbCr", "RGBA64"}, {"YCbCr", "NRGBA"}}
	var pairs int64
	for _, cb := range combos {
		for h := 1; h <= ev.Pick(160, 600); h++ {
			// the scheduler's width must not matter either
			runtime.GOMAXPROCS([]int{origProcs, 3, 1, 5, origProcs, 12}[h%6])
			for p := 1; p <= ev.Pick(40, 130); p++ {
				if !ev.Thorough() && (h*7+p*3)%3 != 0 && p > 8 && h > 24 {
					continue // quick: every pair with p <= 8 or h <= 24, a third of the rest
				}
				c := Case{Src: img.Spec{Type: cb[0], Ratio: (h + p) % 6, Rect: [4]int{0, 0, 2, h}, Parent: [4]int{0, 0, 2, h}, Fill: "ramp", Seed: 1}, Helper: cb[1], Par: p}
				pairs++
				k, wh, _ := check(c)
				if k != "" && !bad[k] {
					bad[k] = true
					ev.Violation("convert", c.Helper+"/"+k, wh, c)
				}
			}
		}
		nbig := ev.Pick(220, 3000)
		for i := 0; i < nbig; i++ {
			total := 1 << 18
			if ev.Thorough() && i%4 == 0 {
				total = 1 << 20
			}
			h := 256 + next(1800)
			if i%4 == 1 {
				h = []int{480, 512, 600, 768, 1024, 1080, 1200, 1920, 2048}[next(9)]
			}
			par := 1 + next(32)
			if i%16 == 3 {
				par = 33 + next(96)
			}
			c := Case{Src: img.Spec{Type: cb[0], Ratio: next(6), Rect: [4]int{0, 0, (total + h - 1) / h, h}, Parent: [4]int{0, 0, (total + h - 1) / h, h}, Fill: "ramp", Seed: 1}, Helper: cb[1], Par: par}
			pairs++
			k, wh, _ := check(c)
			if k != "" && !bad[k] {
				bad[k] = true
				ev.Violation("convert", c.Helper+"/"+k, wh, c)
			}
		}
	}
	ev.Eval(pairs)
	ev.NTAdd(pairs)
	runtime.GOMAXPROCS(origProcs)
	ev.Class("height-parallelism-pairs", pairs)
}

var origProcs = runtime.GOMAXPROCS(0)

// banners: few rows, many columns.  Row-partitioned loops are only one way to split the work; a helper may split a
// wide image by columns or blocks once it has fewer rows than workers, and may move data in fixed-size runs.  Every
// source type x helper, widths at and around powers of two up to 16385 (and one seeded width), 1..3 rows,
// parallelism below, at and above the row count, zero and non-zero x origins, sub-images of a wider parent.
func banners() {
	x := ev.Seed()*0x9E3779B97F4A7C15 + 77
	next := func(n int) int {
		x ^= x << 13
		x ^= x >> 7
		x ^= x << 17
		return int(x>>33) % n
	}
	widths := []int{64, 129, 192, 260, 513, 1025, 2049, 4097, 8193, 16385, 71 + next(20000)}
	pars := []int{2, 3, 4, 5, 8, 16, 33, 1}
	xs := []int{40, 2, 0, 63, 300}
	bad := map[string]bool{}
	var n int64
	for _, typ := range img.Types {
		for _, helper := range []string{"NRGBA", "RGBA", "RGBA64"} {
			for _, w := range widths {
				for k := 0; k < ev.Pick(3, 24); k++ {
					h, par, x0 := 1+next(3), pars[next(len(pars))], xs[next(len(xs))]
					if ev.Thorough() {
						par = pars[k%len(pars)]
					}
					y0 := next(3)
					s := img.Spec{Type: typ, Ratio: next(6), Rect: [4]int{x0, y0, x0 + w, y0 + h}, Parent: [4]int{x0, y0, x0 + w, y0 + h}, Fill: "prng", Seed: ev.Seed() + uint64(n), PalN: 255}
					if next(2) == 0 {
						ml := 2
						if ml > x0 {
							ml = x0
						}
						s.Parent = [4]int{x0 - ml, y0, x0 + w + 3, y0 + h + 1}
					}
					c := Case{Src: s, Helper: helper, Par: par}
					n++
					kd, wh, _ := check(c)
					if kd != "" && !bad[helper+kd] {
						bad[helper+kd] = true
						ev.Violation("convert", c.Helper+"/"+kd, wh, c)
					}
				}
			}
		}
	}
	// opaque pictures with soft edges (translucent first / last pixels of a row, a few scattered ones): row-level
	// shortcuts for "all opaque" must look at every pixel.  Widths around multiples of the word and vector sizes.
	for _, typ := range []string{"NRGBA", "RGBA", "NRGBA64", "RGBA64"} {
		for _, helper := range []string{"NRGBA", "RGBA", "RGBA64"} {
			for _, w := range []int{1, 2, 3, 7, 8, 9, 15, 16, 17, 18, 31, 32, 33, 63, 64, 65, 127, 129} {
				for _, h := range []int{1, 4} {
					x0 := (w + h) % 3
					s := img.Spec{Type: typ, Rect: [4]int{x0, 1, x0 + w, 1 + h}, Parent: [4]int{0, 0, x0 + w + h%2, 2 + h}, Fill: "edges", Seed: ev.Seed() + uint64(n)}
					c := Case{Src: s, Helper: helper, Par: 1 + (w+h)%3}
					n++
					kd, wh, _ := check(c)
					if kd != "" && !bad[helper+kd] {
						bad[helper+kd] = true
						ev.Violation("convert", c.Helper+"/"+kd, wh, c)
					}
				}
			}
		}
	}
	// rows longer than 2^16, 2^17, 2^18 pixels (16-bit column counters, subsampled chroma offsets): one row, every
	// type and subsampling ratio, helper and parallelism rotated (all helpers in thorough)
	for ti, typ := range img.Types {
		for wi, w := range []int{65537, 70000, 131073, 262145} {
			ratios := []int{0}
			if typ == "YCbCr" || typ == "NYCbCrA" {
				ratios = []int{0, 1, 2, 3, 4, 5}
			}
			for _, ratio := range ratios {
				hs := []string{[]string{"NRGBA", "RGBA", "RGBA64"}[(ti+wi+ratio)%3]}
				if ev.Thorough() || typ == "YCbCr" {
					hs = []string{"NRGBA", "RGBA", "RGBA64"}
				}
				for _, helper := range hs {
					x0 := []int{0, 2, 40}[(wi+ratio)%3]
					s := img.Spec{Type: typ, Ratio: ratio, Rect: [4]int{x0, 0, x0 + w, 1}, Parent: [4]int{x0, 0, x0 + w, 1}, Fill: "prng", Seed: ev.Seed() + uint64(n), PalN: 255}
					c := Case{Src: s, Helper: helper, Par: []int{1, 3, 16}[(ti+wi)%3]}
					n++
					kd, wh, _ := check(c)
					if kd != "" && !bad[helper+kd] {
						bad[helper+kd] = true
						ev.Violation("convert", c.Helper+"/"+kd, wh, c)
					}
				}
			}
		}
	}
	// images of more than 2^22 pixels, converted repeatedly with many workers: another work-splitting scheme may
	// take over at such sizes, and a scheme that hands out work dynamically can go wrong only now and then
	for _, typ := range []string{"YCbCr", "NRGBA", "RGBA64"} {
		for _, g := range [][2]int{{512, 8200}, {2050, 2048}} {
			helper := map[string]string{"YCbCr": "NRGBA", "NRGBA": "RGBA64", "RGBA64": "RGBA"}[typ]
			if g[0] == 2050 {
				helper = map[string]string{"YCbCr": "RGBA64", "NRGBA": "RGBA", "RGBA64": "NRGBA"}[typ]
			}
			s := img.Spec{Type: typ, Ratio: 2, Rect: [4]int{0, 0, g[0], g[1]}, Parent: [4]int{0, 0, g[0], g[1]}, Fill: "ramp", Seed: 1}
			b := img.Build(s)
			reps := ev.Pick(10, 60)
			if typ == "YCbCr" {
				reps = ev.Pick(24, 120)
			}
			var first []byte
			for r := 0; r < reps; r++ {
				par := []int{16, 8, 13, 32}[r%4]
				var o image.Image
				if pn, msg := ev.Guard(func() {
					switch helper {
					case "NRGBA":
						o = prism.ConvertImageToNRGBA(b.Img, par)
					case "RGBA":
						o = prism.ConvertImageToRGBA(b.Img, par)
					default:
						o = prism.ConvertImageToRGBA64(b.Img, par)
					}
				}); pn {
					ev.Violation("convert", helper+"/panic", msg, Case{Src: s, Helper: helper, Par: par})
					break
				}
				gp, _, _ := pix(o)
				n++
				if r == 0 {
					// the first result is checked against draw.Draw by the ordinary check, the others against it
					if kd, wh, _ := check(Case{Src: s, Helper: helper, Par: 1}); kd != "" && !bad[helper+kd] {
						bad[helper+kd] = true
						ev.Violation("convert", helper+"/"+kd, wh, Case{Src: s, Helper: helper, Par: 1})
					}
					ref := prismSeq(b.Img, helper)
					first = ref
				}
				if !bytes.Equal(gp, first) {
					k := 0
					for k < len(gp) && k < len(first) && gp[k] == first[k] {
						k++
					}
					ev.Violation("convert", helper+"/parallel-differs", fmt.Sprintf("ConvertImageTo%s(%s %dx%d, parallelism %d), run %d: result differs from the parallelism-1 result at byte %d", helper, typ, g[0], g[1], par, r+1, k), Case{Src: s, Helper: helper, Par: par})
					break
				}
			}
		}
	}
	// ... and columns taller than 2^16 rows (16-bit row counters, per-row tables)
	for ti, typ := range img.Types {
		for hi, h := range []int{65537, 70001} {
			helper := []string{"NRGBA", "RGBA", "RGBA64"}[(ti+hi)%3]
			s := img.Spec{Type: typ, Ratio: (ti + hi) % 6, Rect: [4]int{1, 0, 2 + hi, h}, Parent: [4]int{1, 0, 2 + hi, h}, Fill: "prng", Seed: ev.Seed() + uint64(n), PalN: 255}
			c := Case{Src: s, Helper: helper, Par: []int{1, 3, 16, 257, 65536}[(ti+2*hi)%5]}
			n++
			kd, wh, _ := check(c)
			if kd != "" && !bad[helper+kd] {
				bad[helper+kd] = true
				ev.Violation("convert", c.Helper+"/"+kd, wh, c)
			}
		}
	}
	ev.Eval(n)
	ev.NTAdd(n)
	ev.Class("banners", n)
}

// prismSeq converts with parallelism 1 and returns the pixel bytes.
func prismSeq(m image.Image, helper string) []byte {
	var o image.Image
	switch helper {
	case "NRGBA":
		o = prism.ConvertImageToNRGBA(m, 1)
	case "RGBA":
		o = prism.ConvertImageToRGBA(m, 1)
	default:
		o = prism.ConvertImageToRGBA64(m, 1)
	}
	p, _, _ := pix(o)
	return append([]byte(nil), p...)
}
