// C16 — ICC header fields are decoded exactly as ICC.1 lays them out.
package c16

import (
	"bufio"
	"bytes"
	"encoding/binary"
	"encoding/hex"
	"fmt"
	"github.com/mandykoh/prism/meta"
	"io"
	"reflect"
	"sync"
	"testing"
	"time"

	"github.com/mandykoh/prism/meta/icc"
	"pgregory.net/rapid"

	"verif/internal/build"
	"verif/internal/ev"
	"verif/internal/src"
)

func TestMain(m *testing.M) {
	// the date-time of the header is defined in UTC; the process runs in a zone that is neither UTC nor a whole
	// hour away from it, so that any use of the local zone shows
	time.Local = time.FixedZone("verif+10:30", 10*3600+30*60)
	ev.Main(m, "C16", "exploration")
}

type Case struct {
	Header string `json:"header_hex"` // 128 bytes
	// Batch: a history instead of one header - every header is parsed once in order (rejected ones included), then
	// the accepted ones are parsed again on Workers goroutines at the same time, each on its own reader
	Batch   []string `json:"batch_hex,omitempty"`
	Workers int      `json:"workers,omitempty"`
}

// checkBatch: the decoded header of a profile does not depend on what was parsed before it or beside it.
func checkBatch(c Case) (kind, what string) {
	type item struct {
		data []byte
		want icc.Header
		hex  string
		p    *icc.Profile // the value handed out at the time; it must keep saying what it said
	}
	var items []item
	for _, hx := range c.Batch {
		if k, w, _ := check(Case{Header: hx}); k != "" {
			return k, w
		}
		raw, _ := hex.DecodeString(hx)
		var h [128]byte
		copy(h[:], raw)
		data := profileWith(h)
		p, err := icc.NewProfileReader(bytes.NewReader(data)).ReadProfile()
		if err == nil {
			items = append(items, item{data, p.Header, hx, p})
		}
	}
	// the same headers through ONE metadata value whose profile bytes are replaced each time: the parsed profile
	// must follow the bytes the value carries now
	md := &meta.Data{}
	for _, hx := range c.Batch {
		raw, _ := hex.DecodeString(hx)
		var h [128]byte
		copy(h[:], raw)
		data := profileWith(h)
		want, werr := icc.NewProfileReader(bytes.NewReader(data)).ReadProfile()
		md.SetICCProfileData(data)
		var got *icc.Profile
		var gerr error
		if pn, msg := ev.Guard(func() { got, gerr = md.ICCProfile() }); pn {
			return "panic", msg
		}
		if (werr == nil) != (gerr == nil) || (werr == nil && !reflect.DeepEqual(want.Header, got.Header)) {
			return "metadata-reuse", fmt.Sprintf("a metadata value given the profile with header %s returns %+v / %v from ICCProfile(); parsing those bytes directly gives %+v / %v (the value carried other profiles before)", hx, got, gerr, want, werr)
		}
	}
	if len(items) == 0 {
		return "", ""
	}
	var mu sync.Mutex
	var wg sync.WaitGroup
	start := make(chan struct{})
	for g := 0; g < c.Workers; g++ {
		wg.Add(1)
		go func(g int) {
			defer wg.Done()
			<-start
			for rep := 0; rep < 40; rep++ {
				it := items[(g+rep)%len(items)]
				var p *icc.Profile
				var err error
				if pn, msg := ev.Guard(func() { p, err = icc.NewProfileReader(bytes.NewReader(it.data)).ReadProfile() }); pn {
					mu.Lock()
					kind, what = "panic", msg
					mu.Unlock()
					return
				}
				if err != nil || !reflect.DeepEqual(p.Header, it.want) {
					mu.Lock()
					if kind == "" {
						kind = "history-dependent"
						what = fmt.Sprintf("header %s parsed beside %d other parses (after %d earlier parses, some rejected) gave %+v / %v, alone it gives %+v", it.hex, c.Workers-1, len(c.Batch), p, err, it.want)
					}
					mu.Unlock()
					return
				}
			}
		}(g)
	}
	close(start)
	wg.Wait()
	if kind == "" {
		for _, it := range items {
			if !reflect.DeepEqual(it.p.Header, it.want) {
				return "earlier-result-changed", fmt.Sprintf("the profile returned for header %s said %+v when it was returned and says %+v after later profiles were parsed", it.hex, it.want, it.p.Header)
			}
		}
	}
	return kind, what
}

// flaky delivers data byte-wise or block-wise and reports one temporary error when position failAt is reached
type flaky struct {
	data   []byte
	pos    int
	failAt int
	failed bool
}

type tempErr struct{}

func (tempErr) Error() string   { return "resource temporarily unavailable" }
func (tempErr) Temporary() bool { return true }
func (tempErr) Timeout() bool   { return true }

func (f *flaky) ReadByte() (byte, error) {
	if f.pos == f.failAt && !f.failed {
		f.failed = true
		return 0, tempErr{}
	}
	if f.pos >= len(f.data) {
		return 0, io.EOF
	}
	f.pos++
	return f.data[f.pos-1], nil
}

func (f *flaky) Read(p []byte) (int, error) {
	if len(p) == 0 {
		return 0, nil
	}
	if f.pos >= len(f.data) {
		return 0, io.EOF
	}
	n := len(p)
	if !f.failed && f.failAt >= f.pos && f.failAt < f.pos+n {
		n = f.failAt - f.pos
		if n == 0 {
			f.failed = true
			return 0, tempErr{}
		}
	}
	if n > len(f.data)-f.pos {
		n = len(f.data) - f.pos
	}
	copy(p, f.data[f.pos:f.pos+n])
	f.pos += n
	return n, nil
}

func be32v(b []byte) uint32 { return binary.BigEndian.Uint32(b) }

func profileWith(h [128]byte) []byte {
	p := build.ICC{Header: h, Tags: []build.ICCTag{{Sig: 0x64657363, Data: build.TextDesc("x"), Share: -1}}}
	b, _ := p.Bytes()
	// the builder overwrites the size field; restore the caller's bytes 0..3 so that field is under test too
	copy(b[0:4], h[0:4])
	return b
}

func validDate(y, mo, d, h, mi, s uint16) bool {
	if mo < 1 || mo > 12 || d < 1 || h > 23 || mi > 59 || s > 59 {
		return false
	}
	dim := []uint16{31, 28, 31, 30, 31, 30, 31, 31, 30, 31, 30, 31}[mo-1]
	if mo == 2 && (y%4 == 0 && (y%100 != 0 || y%400 == 0)) {
		dim = 29
	}
	return d <= dim
}

func check(c Case) (kind, what string, nt bool) {
	raw, err := hex.DecodeString(c.Header)
	if err != nil || len(raw) != 128 {
		return "harness", "bad header", false
	}
	var h [128]byte
	copy(h[:], raw)
	data := profileWith(h)
	var p, p2 *icc.Profile
	var rerr, rerr2 error
	if pn, msg := ev.Guard(func() {
		p, rerr = icc.NewProfileReader(bytes.NewReader(data)).ReadProfile()
		// the same bytes behind a 16-byte bufio.Reader over a source that delivers 1..7 bytes per call: the
		// decoded header must not depend on how the reader hands the bytes over
		s := &src.Source{Data: data, FaultAt: -1, Sizes: []int{int(h[99])%7 + 1}}
		p2, rerr2 = icc.NewProfileReader(bufio.NewReaderSize(s, 16)).ReadProfile()
	}); pn {
		return "panic", msg, true
	}
	// ... and from seekable standard readers positioned after a prefix (a profile embedded in a larger stream)
	for ki, kind := range []string{"bytes.Reader", "strings.Reader", "bytes.Buffer"} {
		var p3 *icc.Profile
		var rerr3 error
		prefix := []int{36, 1, 128}[ki]
		if pn, msg := ev.Guard(func() {
			r, _, _ := src.Std(kind, prefix, data, "")
			p3, rerr3 = icc.NewProfileReader(r.(interface {
				io.Reader
				io.ByteReader
			})).ReadProfile()
		}); pn {
			return "panic", msg, true
		}
		if (rerr == nil) != (rerr3 == nil) || (rerr == nil && !reflect.DeepEqual(p.Header, p3.Header)) {
			return "reader-dependent", fmt.Sprintf("header decoded from a %s positioned after %d prefix bytes differs from the one decoded at offset 0: %v / %v (header %s)", kind, prefix, rerr3, rerr, c.Header), true
		}
	}
	// ... and from a *bufio.Reader that has already delivered earlier parts of a longer stream, so that the header
	// lies anywhere in its buffer - right at the end of it in particular - and more data follows the profile
	{
		hh := int(h[99]) + int(h[80])<<8
		size := []int{4096, 4096, 256, 16, 65536, 200}[hh%6]
		prefix := []int{size - 196, size - 132, size - 128, size - 100, size - 4, size, size + 7, 1, 3 * size}[(hh/6)%9]
		if prefix < 0 {
			prefix = 0
		}
		stream := append(bytes.Repeat([]byte{0xA5, 0x5A, 0x00, 0xFF}, prefix/4+1)[:prefix], data...)
		stream = append(stream, bytes.Repeat([]byte("following stream data "), 300)...)
		var p4 *icc.Profile
		var rerr4 error
		if pn, msg := ev.Guard(func() {
			br := bufio.NewReaderSize(bytes.NewReader(stream), size)
			if _, err := br.Discard(prefix); err != nil {
				panic(err)
			}
			p4, rerr4 = icc.NewProfileReader(br).ReadProfile()
		}); pn {
			return "panic", msg, true
		}
		if (rerr == nil) != (rerr4 == nil) || (rerr == nil && !reflect.DeepEqual(p.Header, p4.Header)) {
			return "reader-dependent", fmt.Sprintf("header decoded from a bufio.Reader of %d bytes that had already delivered %d bytes of the stream differs from the one decoded at offset 0: %v / %v (header %s)", size, prefix, rerr4, rerr, c.Header), true
		}
	}
	// ... and with other tags behind the same header: a multi-localised description where the reference profile has
	// a v2 text description, and no tags at all - the header's fields are the header's
	for vi, tags := range [][]build.ICCTag{
		{{Sig: 0x64657363, Data: build.Mluc([]build.MlucRec{{Lang: [2]byte{'e', 'n'}, Country: [2]byte{'U', 'S'}, Text: "x"}}, nil, nil, 0), Share: -1}},
		{{Sig: 0x63707274, Data: build.TextDesc("y"), Share: -1}, {Sig: 0x64657363, Data: build.Mluc([]build.MlucRec{{Lang: [2]byte{'d', 'e'}, Country: [2]byte{'D', 'E'}, Text: "z"}}, nil, nil, 0), Share: -1}},
		nil,
	} {
		pb := build.ICC{Header: h, Tags: tags}
		b, _ := pb.Bytes()
		copy(b[0:4], h[0:4])
		var p9 *icc.Profile
		var rerr9 error
		if pn, msg := ev.Guard(func() { p9, rerr9 = icc.NewProfileReader(bytes.NewReader(b)).ReadProfile() }); pn {
			return "panic", msg, true
		}
		if (rerr == nil) != (rerr9 == nil) || (rerr == nil && !reflect.DeepEqual(p.Header, p9.Header)) {
			return "tags-dependent", fmt.Sprintf("the same header decodes differently in a profile with other tags (variant %d): %v / %v (header %s)", vi, rerr9, rerr, c.Header), true
		}
	}
	// ... and from a source that reports a transient error (one whose Temporary method says true: EINTR, EAGAIN, a
	// timeout) once, in the middle of the header, and then carries on: the read may fail, but a header that IS
	// returned must be the right one
	// (a profile without tags, followed by zero bytes, so that a reader which loses its place still finds a tag
	// table it can accept)
	data0 := append(append([]byte(nil), h[:]...), make([]byte, 24)...)
	for k := 0; k < 3; k++ {
		at := (int(h[99])*7 + int(h[83])*3 + k*53) % 131
		var p8 *icc.Profile
		var rerr8 error
		if pn, msg := ev.Guard(func() {
			p8, rerr8 = icc.NewProfileReader(&flaky{data: data0, failAt: at}).ReadProfile()
		}); pn {
			return "panic", msg, true
		}
		if rerr8 == nil && rerr == nil && !reflect.DeepEqual(p.Header, p8.Header) {
			return "transient-error", fmt.Sprintf("a source that reported one temporary error at byte %d and then continued: ReadProfile returned no error and a different header (header %s)", at, c.Header), true
		}
		if rerr8 == nil && rerr != nil {
			return "transient-error", fmt.Sprintf("a source that reported one temporary error at byte %d: ReadProfile accepted a header it otherwise rejects (%v) (header %s)", at, rerr, c.Header), true
		}
	}
	// ... and from a ProfileReader that is used more than once: first on a stream that has nothing yet (it reports
	// EOF), then, once the profile has arrived in the same buffer, again; and for two profiles back to back
	{
		var p5, p6, p7 *icc.Profile
		var e0, rerr5, rerr6, rerr7 error
		h2 := h
		h2[67] ^= 1 // the second profile differs in its rendering intent
		h2[47] ^= 0x80
		data2 := profileWith(h2)
		if pn, msg := ev.Guard(func() {
			var buf bytes.Buffer
			pr := icc.NewProfileReader(&buf)
			_, e0 = pr.ReadProfile()
			buf.Write(data)
			p5, rerr5 = pr.ReadProfile()
			buf.Write(data)
			buf.Write(data2)
			p6, rerr6 = pr.ReadProfile()
			p7, rerr7 = pr.ReadProfile()
		}); pn {
			return "panic", msg, true
		}
		if e0 == nil {
			return "reader-reuse", "ReadProfile on an empty stream reported no error", true
		}
		if (rerr == nil) != (rerr5 == nil) || (rerr == nil && !reflect.DeepEqual(p.Header, p5.Header)) {
			return "reader-reuse", fmt.Sprintf("the same ProfileReader, asked again after the profile had arrived in its (so far empty) stream, gives %v; a fresh reader gives %v (header %s)", rerr5, rerr, c.Header), true
		}
		if rerr == nil {
			if rerr6 != nil || rerr7 != nil || !reflect.DeepEqual(p.Header, p6.Header) {
				return "reader-reuse", fmt.Sprintf("two profiles back to back through one ProfileReader: errors %v / %v, first header equal=%v (header %s)", rerr6, rerr7, rerr6 == nil && reflect.DeepEqual(p.Header, p6.Header), c.Header), true
			}
			if p7.Header.RenderingIntent == p6.Header.RenderingIntent && be32v(h[64:]) <= 3 {
				return "reader-reuse", fmt.Sprintf("the second of two profiles read through one ProfileReader has the first one's rendering intent (header %s)", c.Header), true
			}
		}
	}
	if (rerr == nil) != (rerr2 == nil) || (rerr == nil && !reflect.DeepEqual(p.Header, p2.Header)) {
		return "reader-dependent", fmt.Sprintf("header decoded from a short-reading buffered reader differs from the one decoded from bytes.Reader: %v / %v (header %s)", rerr2, rerr, c.Header), true
	}
	be32 := func(o int) uint32 { return binary.BigEndian.Uint32(h[o:]) }
	be16 := func(o int) uint16 { return binary.BigEndian.Uint16(h[o:]) }
	nt = be32(44) != 0 || h[9]&0x0F != 0 || binary.BigEndian.Uint64(h[56:]) != 0 || !bytes.Equal(h[100:128], make([]byte, 28)) || h[10] != 0 || h[11] != 0
	if be32(36) != 0x61637370 {
		if rerr == nil {
			return "signature", fmt.Sprintf("header with signature %#08x accepted", be32(36)), true
		}
		return "", "", true
	}
	if rerr != nil || p == nil {
		return "rejected", fmt.Sprintf("valid 'acsp' header rejected: %v", rerr), nt
	}
	g := p.Header
	cmp := func(name string, got, want any) bool {
		if got != want {
			kind, what = name, fmt.Sprintf("header field %s = %v, ICC.1 layout gives %v (header %s)", name, got, want, c.Header)
			return false
		}
		return true
	}
	ok := cmp("size", g.ProfileSize, be32(0)) &&
		cmp("cmm", uint32(g.PreferredCMM), be32(4)) &&
		cmp("version-major", g.Version.Major, h[8]) &&
		cmp("version-minor", g.Version.MinorAndRev, h[9]) &&
		cmp("version-string", g.Version.String(), fmt.Sprintf("%d.%d.%d", h[8], h[9]>>4, h[9]&15)) &&
		cmp("class", uint32(g.DeviceClass), be32(12)) &&
		cmp("colorspace", uint32(g.DataColorSpace), be32(16)) &&
		cmp("pcs", uint32(g.ProfileConnectionSpace), be32(20)) &&
		cmp("platform", uint32(g.PrimaryPlatform), be32(40)) &&
		cmp("flags-embedded", g.Embedded, be32(44)&1 != 0) &&
		cmp("flags-independent", g.DependsOnEmbeddedData, be32(44)&2 != 0) &&
		cmp("manufacturer", uint32(g.DeviceManufacturer), be32(48)) &&
		cmp("model", uint32(g.DeviceModel), be32(52)) &&
		cmp("attributes", g.DeviceAttributes, binary.BigEndian.Uint64(h[56:])) &&
		cmp("intent", uint32(g.RenderingIntent), be32(64)) &&
		cmp("illuminant", g.PCSIlluminant, [3]uint32{be32(68), be32(72), be32(76)}) &&
		cmp("creator", uint32(g.ProfileCreator), be32(80)) &&
		cmp("id", hex.EncodeToString(g.ProfileID[:]), hex.EncodeToString(h[84:100]))
	if !ok {
		return kind, what, nt
	}
	y, mo, d, hh, mi, s := be16(24), be16(26), be16(28), be16(30), be16(32), be16(34)
	if validDate(y, mo, d, hh, mi, s) {
		want := time.Date(int(y), time.Month(mo), int(d), int(hh), int(mi), int(s), 0, time.UTC)
		if !g.CreatedAt.Equal(want) || g.CreatedAt.Year() != int(y) || int(g.CreatedAt.Month()) != int(mo) || g.CreatedAt.Day() != int(d) ||
			g.CreatedAt.Hour() != int(hh) || g.CreatedAt.Minute() != int(mi) || g.CreatedAt.Second() != int(s) {
			return "date", fmt.Sprintf("creation time %v, header says %04d-%02d-%02d %02d:%02d:%02d", g.CreatedAt, y, mo, d, hh, mi, s), nt
		}
	}
	return "", "", nt
}

var vocab = []string{"XYZ ", "Lab ", "Luv ", "YCbr", "Yxy ", "RGB ", "GRAY", "HSV ", "HLS ", "CMYK", "CMY ", "2CLR", "3CLR", "4CLR", "5CLR", "6CLR", "7CLR", "8CLR", "9CLR", "ACLR", "BCLR", "CCLR", "DCLR", "ECLR", "FCLR",
	"MCH1", "MCH2", "MCH3", "MCH4", "MCH5", "MCH6", "MCH7", "MCH8", "MCH9", "MCHA", "MCHB", "MCHC", "MCHD", "MCHE", "MCHF", "nc01", "nc0F",
	"scnr", "mntr", "prtr", "link", "spac", "abst", "nmcl", "cenc", "mid ", "mlnk", "mvis",
	"APPL", "MSFT", "SGI ", "SUNW", "TGNT", "*nix", "ADBE", "ACMS", "appl", "CCMS", "UCCM", "UCMS", "EFI ", "FF  ", "EXAC", "HCMM", "argl", "LgoS", "HDM ", "lcms", "KCMS", "MCML", "WCS ", "SIGN", "RGMS", "SICC", "32BT", "zc00",
	"none", "\x00\x00\x00\x00", "acsp", "desc", "mluc", "    "}

func base() [128]byte {
	var h [128]byte
	copy(h[36:], "acsp")
	binary.BigEndian.PutUint16(h[24:], 2000)
	binary.BigEndian.PutUint16(h[26:], 1)
	binary.BigEndian.PutUint16(h[28:], 1)
	return h
}

func TestC16(t *testing.T) {
	if ev.Replaying() != nil {
		var c Case
		if err := ev.ReplayCase(&c); err != nil {
			t.Fatal(err)
		}
		if len(c.Batch) > 0 {
			if k, w := checkBatch(c); k != "" {
				ev.Fail(t, "header", k, w, c)
			}
			fmt.Println("REPLAY case passed")
			return
		}
		if k, w, _ := check(c); k != "" {
			ev.Fail(t, "header", k, w, c)
		}
		fmt.Println("REPLAY case passed")
		return
	}
	ev.Rule("128-byte headers followed by a one-tag table: all-zero and all-ones (with signature), walking ones over all 1024 bit positions on a base with a valid date (signature bits must flip the outcome to 'rejected'), all 65,536 values of the two version bytes, every valid date-time component value, rapid headers (random bytes, signature kept or perturbed), and histories (3-12 random headers, a quarter without the signature, parsed in order and then the accepted ones again on 2-16 goroutines at once, each compared with its own single-threaded result). Oracle: encoding/binary big-endian reads at the ICC.1 offsets. non-trivial = distinct header with non-zero flags word, bug-fix nibble, attributes or reserved area")
	ev.Assume("ICC.1:2010 table 17 offsets as transcribed in the check; creation time compared only when its components form a valid calendar date")
	bad := map[string]bool{}
	run := func(h [128]byte, tag string) {
		c := Case{Header: hex.EncodeToString(h[:])}
		ev.Eval(1)
		k, w, nt := check(c)
		if nt {
			ev.NT(ev.Hash(c.Header))
		}
		if k != "" && !bad[k] {
			bad[k] = true
			ev.Violation("header", k, tag+": "+w, c)
		}
	}
	run(base(), "base")
	var ones [128]byte
	for i := range ones {
		ones[i] = 0xFF
	}
	copy(ones[36:], "acsp")
	run(ones, "all-ones")
	for bit := 0; bit < 1024; bit++ {
		h := base()
		h[bit/8] ^= 0x80 >> uint(bit%8)
		run(h, fmt.Sprintf("walking-one bit %d", bit))
		h2 := ones
		h2[bit/8] ^= 0x80 >> uint(bit%8)
		run(h2, fmt.Sprintf("walking-zero bit %d", bit))
	}
	ev.Class("walking-bits", 2048)
	for v := 0; v < 65536; v++ {
		h := base()
		h[8], h[9] = byte(v>>8), byte(v)
		run(h, "version sweep")
	}
	ev.Class("version-sweep", 65536)
	// date-time components
	for y := 1900; y <= 2100; y++ {
		for mo := 1; mo <= 12; mo++ {
			for _, d := range []int{1, 28, 29, 30, 31} {
				if !validDate(uint16(y), uint16(mo), uint16(d), 0, 0, 0) {
					continue
				}
				h := base()
				binary.BigEndian.PutUint16(h[24:], uint16(y))
				binary.BigEndian.PutUint16(h[26:], uint16(mo))
				binary.BigEndian.PutUint16(h[28:], uint16(d))
				binary.BigEndian.PutUint16(h[30:], uint16((y+mo)%24))
				binary.BigEndian.PutUint16(h[32:], uint16((y*7+d)%60))
				binary.BigEndian.PutUint16(h[34:], uint16((y*13+mo)%60))
				run(h, "date sweep")
			}
		}
	}
	for _, y := range []int{0, 1, 9999, 65535} {
		h := base()
		binary.BigEndian.PutUint16(h[24:], uint16(y))
		run(h, "date extreme")
	}
	for hh := 0; hh < 24; hh++ {
		for mi := 0; mi < 60; mi++ {
			h := base()
			binary.BigEndian.PutUint16(h[30:], uint16(hh))
			binary.BigEndian.PutUint16(h[32:], uint16(mi))
			binary.BigEndian.PutUint16(h[34:], uint16((hh*60+mi)%60))
			run(h, "time sweep")
		}
	}
	// vocabulary: every signature that ICC.1 (or common practice) defines, in every signature-typed field; a
	// decoder that "normalises" some of them no longer reports the bytes that are there
	for _, off := range []int{4, 12, 16, 20, 40, 48, 52, 80} {
		for _, v := range vocab {
			h := base()
			copy(h[off:], v)
			run(h, fmt.Sprintf("signature %q at offset %d", v, off))
		}
	}
	ev.Class("signature-vocabulary", int64(8*len(vocab)))
	// headers as real profiles carry them: version x class x colour space x PCS x platform x illuminant (D50 as
	// ICC encodes it, D65, near-D65, equal energy) x intent; a decoder that "repairs" implausible combinations no
	// longer reports the bytes that are there
	{
		var nr int64
		illums := [][3]uint32{{0xF6D6, 0x10000, 0xD32D}, {0xF352, 0x10000, 0x116CF}, {0xF352 + 0x30, 0x10000, 0x116CF - 0x41}, {0x10000, 0x10000, 0x10000}, {0xF6D5, 0x10000, 0xD32C}}
		for _, ver := range [][2]byte{{2, 0x10}, {2, 0x40}, {4, 0x20}, {4, 0x40}, {5, 0}} {
			for _, class := range []string{"scnr", "mntr", "prtr", "link", "spac", "abst", "nmcl"} {
				for ci, cs := range []string{"RGB ", "GRAY", "CMYK", "Lab "} {
					for pi, pcs := range []string{"XYZ ", "Lab "} {
						for ii, il := range illums {
							h := base()
							h[8], h[9] = ver[0], ver[1]
							copy(h[12:], class)
							copy(h[16:], cs)
							copy(h[20:], pcs)
							copy(h[40:], []string{"APPL", "MSFT", "SGI ", "SUNW", "\x00\x00\x00\x00"}[(ci+pi+ii)%5])
							binary.BigEndian.PutUint32(h[64:], uint32((ci+ii)%4))
							binary.BigEndian.PutUint32(h[68:], il[0])
							binary.BigEndian.PutUint32(h[72:], il[1])
							binary.BigEndian.PutUint32(h[76:], il[2])
							run(h, fmt.Sprintf("v%d.%x %s %s/%s illuminant %x", ver[0], ver[1], class, cs, pcs, il))
							nr++
						}
					}
				}
			}
		}
		ev.Class("realistic-combinations", nr)
	}
	// pairs: a defined signature in one field and a small number in a numeric field, written big-endian (as the
	// specification says) or byte-swapped (as a careless writer would): a decoder that second-guesses one field
	// from another no longer reports the bytes that are there
	{
		var np int64
		nums := []uint32{0, 1, 2, 3, 0x01000000, 0x02000000, 0x03000000, 0x00010000, 0x00000100, 0x80000000}
		for _, off := range []int{4, 12, 16, 20, 40, 48, 52, 80} {
			for vi, v := range vocab {
				for _, noff := range []int{0, 44, 60, 64, 68, 72, 76} {
					if !ev.Thorough() && (vi+noff/4+off/4)%3 != 0 {
						continue // quick: a third of the triples
					}
					for _, n := range nums {
						h := base()
						copy(h[off:], v)
						binary.BigEndian.PutUint32(h[noff:], n)
						run(h, fmt.Sprintf("signature %q at offset %d with %#x at offset %d", v, off, n, noff))
						np++
					}
				}
			}
		}
		ev.Class("signature-number-pairs", np)
	}
	sample := ones
	ev.Sample(map[string]any{"header_hex": hex.EncodeToString(sample[:]), "kind": "all-ones"})
	hb := base()
	hb[47] = 1
	ev.Sample(map[string]any{"header_hex": hex.EncodeToString(hb[:]), "kind": "walking one: flags bit 0 (embedded)"})

	// histories: rejected and accepted headers in sequence, then the accepted ones side by side
	{
		x := ev.Seed()*0x9E3779B97F4A7C15 + 16
		next := func() uint64 { x ^= x << 13; x ^= x >> 7; x ^= x << 17; return x }
		nh := ev.Pick(40, 2000)
		for i := 0; i < nh; i++ {
			var c Case
			c.Workers = []int{2, 4, 8, 16}[next()%4]
			for j := 0; j < 3+int(next()%10); j++ {
				var h [128]byte
				for k := range h {
					h[k] = byte(next() >> 24)
				}
				if next()%4 != 0 {
					copy(h[36:], "acsp")
				}
				binary.BigEndian.PutUint16(h[24:], 1999)
				binary.BigEndian.PutUint16(h[26:], uint16(1+next()%12))
				binary.BigEndian.PutUint16(h[28:], uint16(1+next()%28))
				binary.BigEndian.PutUint16(h[30:], uint16(next()%24))
				binary.BigEndian.PutUint16(h[32:], uint16(next()%60))
				binary.BigEndian.PutUint16(h[34:], uint16(next()%60))
				c.Batch = append(c.Batch, hex.EncodeToString(h[:]))
				// a copy of the same profile with other flags / intent / attributes / creator (an embedded and a
				// standalone copy share size and profile ID)
				if next()%3 == 0 {
					v := h
					for k := 0; k < 1+int(next()%3); k++ {
						off := []int{44, 47, 56, 63, 64, 67, 80, 40, 12}[next()%9]
						v[off] ^= byte(1 << (next() % 8))
					}
					copy(v[36:], "acsp")
					c.Batch = append(c.Batch, hex.EncodeToString(v[:]))
				}
			}
			ev.Eval(1)
			ev.NT(ev.Hash(c.Batch, c.Workers))
			if k, w := checkBatch(c); k != "" {
				ev.Violation("header", k, w, c)
				break
			}
		}
		ev.Class("histories", int64(nh))
	}
	if ev.Violations() > 0 {
		t.Fail()
		return
	}
	ev.RapidChecks(ev.Pick(10000, 1000000))
	ev.RapidSeed(16)
	rapid.Check(t, func(rt *rapid.T) {
		raw := rapid.SliceOfN(rapid.Byte(), 128, 128).Draw(rt, "header")
		var h [128]byte
		copy(h[:], raw)
		switch rapid.IntRange(0, 9).Draw(rt, "sig") {
		case 0: // leave random (almost surely not acsp)
		case 1: // single-bit-different signature
			copy(h[36:], "acsp")
			b := rapid.IntRange(0, 31).Draw(rt, "sigbit")
			h[36+b/8] ^= 1 << uint(b%8)
		default:
			copy(h[36:], "acsp")
		}
		// realistic values in fields that might steer how other fields are read: version, class, colour space,
		// PCS, platform, small flags / intent / attributes
		if rapid.Bool().Draw(rt, "realistic") {
			if rapid.Bool().Draw(rt, "ver") {
				h[8] = byte(rapid.SampledFrom([]int{2, 2, 4, 4, 5, 1, 0}).Draw(rt, "major"))
				h[9] = byte(rapid.SampledFrom([]int{0x00, 0x10, 0x20, 0x30, 0x40, 0x44, 0x0F}).Draw(rt, "minor"))
				h[10], h[11] = 0, 0
			}
			for _, off := range []int{4, 12, 16, 20, 40, 48, 52, 80} {
				if rapid.Bool().Draw(rt, "sigvocab") {
					copy(h[off:], rapid.SampledFrom(vocab).Draw(rt, "sig"))
				}
			}
			if rapid.Bool().Draw(rt, "smallflags") {
				binary.BigEndian.PutUint32(h[44:], uint32(rapid.IntRange(0, 3).Draw(rt, "flags")))
				binary.BigEndian.PutUint32(h[64:], uint32(rapid.IntRange(0, 3).Draw(rt, "intent")))
				if rapid.Bool().Draw(rt, "swapped") { // the same numbers written little-endian
					binary.LittleEndian.PutUint32(h[44:], binary.BigEndian.Uint32(h[44:]))
					binary.LittleEndian.PutUint32(h[64:], binary.BigEndian.Uint32(h[64:]))
				}
				binary.BigEndian.PutUint64(h[56:], uint64(rapid.IntRange(0, 15).Draw(rt, "attrs")))
			}
		}
		if rapid.Bool().Draw(rt, "validdate") {
			binary.BigEndian.PutUint16(h[24:], uint16(rapid.IntRange(1, 9999).Draw(rt, "y")))
			binary.BigEndian.PutUint16(h[26:], uint16(rapid.IntRange(1, 12).Draw(rt, "mo")))
			binary.BigEndian.PutUint16(h[28:], uint16(rapid.IntRange(1, 28).Draw(rt, "d")))
			binary.BigEndian.PutUint16(h[30:], uint16(rapid.IntRange(0, 23).Draw(rt, "h")))
			binary.BigEndian.PutUint16(h[32:], uint16(rapid.IntRange(0, 59).Draw(rt, "mi")))
			binary.BigEndian.PutUint16(h[34:], uint16(rapid.IntRange(0, 59).Draw(rt, "s")))
		}
		c := Case{Header: hex.EncodeToString(h[:])}
		ev.Eval(1)
		k, w, nt := check(c)
		if nt {
			ev.NT(ev.Hash(c.Header))
		}
		if k != "" {
			ev.Fail(rt, "header", k, w, c)
		}
	})
	if ev.Violations() > 0 {
		t.Fail()
	}
}
