// C20 — generated primaries matrices and the 3x3 algebra beneath them.
package c20

import (
	"fmt"
	"math"
	"testing"

	"github.com/mandykoh/prism/ciexyy"
	"github.com/mandykoh/prism/ciexyz"
	"github.com/mandykoh/prism/matrix"
	"pgregory.net/rapid"

	"verif/internal/ev"
	"verif/internal/ref"
)

func TestMain(m *testing.M) { ev.Main(m, "C20", "exploration") }

// toRef converts prism's column-major matrix (m[col][row]) to row-major.
func toRef(m matrix.Matrix3) ref.M3 {
	var r ref.M3
	for c := 0; c < 3; c++ {
		for rr := 0; rr < 3; rr++ {
			r[rr][c] = m[c][rr]
		}
	}
	return r
}

func fromRef(r ref.M3) matrix.Matrix3 {
	var m matrix.Matrix3
	for c := 0; c < 3; c++ {
		for rr := 0; rr < 3; rr++ {
			m[c][rr] = r[rr][c]
		}
	}
	return m
}

type Prim struct {
	Name       string     `json:"name,omitempty"`
	R, G, B, W [2]float32 // chromaticities as float32 (what the API takes)
	WY         float32    `json:"white_luminance,omitempty"`    // luminance of the white point (0 means 1)
	PY         [3]float32 `json:"primary_luminances,omitempty"` // luminance fields passed with the three primaries (0 means 1); only their chromaticities matter
	// After > 0: the case directly follows request number After-1 of outside(): collinear or coincident primaries,
	// a chromaticity with y = 0, non-finite values, a singular or NaN matrix to invert - answers (and panics) ignored
	After int `json:"after,omitempty"`
}

func outside(i int) {
	nan := float32(math.NaN())
	sets := [][4]ciexyy.Color{
		{{X: 0.2, Y: 0.2, YY: 1}, {X: 0.3, Y: 0.3, YY: 1}, {X: 0.4, Y: 0.4, YY: 1}, ciexyy.D65},       // collinear
		{{X: 0.64, Y: 0.33, YY: 1}, {X: 0.64, Y: 0.33, YY: 1}, {X: 0.15, Y: 0.06, YY: 1}, ciexyy.D65}, // coincident
		{{X: 0.64, Y: 0, YY: 1}, {X: 0.3, Y: 0.6, YY: 1}, {X: 0.15, Y: 0.06, YY: 1}, ciexyy.D50},      // y = 0
		{{X: nan, Y: 0.33, YY: 1}, {X: 0.3, Y: 0.6, YY: 1}, {X: 0.15, Y: 0.06, YY: 1}, ciexyy.D50},
		{{X: 0.64, Y: 0.33, YY: 1}, {X: 0.3, Y: 0.6, YY: 1}, {X: 0.15, Y: 0.06, YY: 1}, {X: 0.3, Y: 0, YY: 1}},
		{{}, {}, {}, {}},
	}
	q := sets[i%len(sets)]
	ev.Guard(func() { ciexyz.TransformToXYZForXYYPrimaries(q[0], q[1], q[2], q[3]) })
	ev.Guard(func() { ciexyz.TransformFromXYZForXYYPrimaries(q[0], q[1], q[2], q[3]) })
	ms := []matrix.Matrix3{{}, {{1, 2, 3}, {2, 4, 6}, {0, 1, 0}}, {{math.NaN(), 0, 0}, {0, 1, 0}, {0, 0, 1}}, {{math.Inf(1), 0, 0}, {0, 1, 0}, {0, 0, 1}}, {{1e-200, 0, 0}, {0, 1e-200, 0}, {0, 0, 1e-200}},
		// exactly singular (a repeated or zero column vector) at magnitudes far from 1
		{{1e-120, 2e-120, 3e-120}, {1e-120, 2e-120, 3e-120}, {0, 1e-120, 0}}, {{3e110, 1e110, 2e110}, {0, 0, 0}, {1e110, 1e110, 5e110}}, {{1e-300, 1e-300, 0}, {1e-300, 1e-300, 0}, {0, 0, 1e-300}},
		{{7e95, 0, 1}, {7e95, 0, 1}, {0.5, 0.25, 4}}, {{2.5e-95, 1e-95, 0}, {0, 0, 0}, {1e-95, 0, 3e-95}}, {{1e200, 1e200, 1e200}, {1e200, 1e200, 1e200}, {1, 2, 3}}}
	ev.Guard(func() { ms[i%len(ms)].Inverse() })
}

func (p Prim) prim(i int) ciexyy.Color {
	c := xyY([][2]float32{p.R, p.G, p.B}[i])
	if p.PY[i] != 0 {
		c.YY = p.PY[i]
	}
	return c
}

func (p Prim) wy() float32 {
	if p.WY == 0 {
		return 1
	}
	return p.WY
}

type MatCase struct {
	Op string `json:"op"`
	// Exp10: the matrices A and B (and V) are multiplied by 10^Exp10 before the call, so that well-conditioned
	// matrices of very small or very large magnitude are covered (the oracle is relative)
	Exp10 int           `json:"exp10,omitempty"`
	After int           `json:"after,omitempty"` // as Prim.After
	A     [3][3]float64 `json:"a"`               // row-major
	B     [3][3]float64 `json:"b,omitempty"`
	V     [3]float64    `json:"v,omitempty"`
}

var published = []Prim{
	{Name: "sRGB/Rec.709", R: [2]float32{0.64, 0.33}, G: [2]float32{0.30, 0.60}, B: [2]float32{0.15, 0.06}, W: [2]float32{0.3127, 0.3290}},
	{Name: "Adobe RGB (1998)", R: [2]float32{0.64, 0.33}, G: [2]float32{0.21, 0.71}, B: [2]float32{0.15, 0.06}, W: [2]float32{0.3127, 0.3290}},
	{Name: "ProPhoto/ROMM", R: [2]float32{0.7347, 0.2653}, G: [2]float32{0.1596, 0.8404}, B: [2]float32{0.0366, 0.0001}, W: [2]float32{0.3457, 0.3585}},
	{Name: "Display P3", R: [2]float32{0.68, 0.32}, G: [2]float32{0.265, 0.69}, B: [2]float32{0.15, 0.06}, W: [2]float32{0.3127, 0.3290}},
	{Name: "DCI-P3", R: [2]float32{0.68, 0.32}, G: [2]float32{0.265, 0.69}, B: [2]float32{0.15, 0.06}, W: [2]float32{0.314, 0.351}},
	{Name: "Rec.2020", R: [2]float32{0.708, 0.292}, G: [2]float32{0.170, 0.797}, B: [2]float32{0.131, 0.046}, W: [2]float32{0.3127, 0.3290}},
	{Name: "NTSC 1953", R: [2]float32{0.67, 0.33}, G: [2]float32{0.21, 0.71}, B: [2]float32{0.14, 0.08}, W: [2]float32{0.3101, 0.3162}},
	{Name: "PAL/SECAM", R: [2]float32{0.64, 0.33}, G: [2]float32{0.29, 0.60}, B: [2]float32{0.15, 0.06}, W: [2]float32{0.3127, 0.3290}},
	{Name: "SMPTE-C", R: [2]float32{0.63, 0.34}, G: [2]float32{0.31, 0.595}, B: [2]float32{0.155, 0.07}, W: [2]float32{0.3127, 0.3290}},
	{Name: "Apple RGB", R: [2]float32{0.625, 0.34}, G: [2]float32{0.28, 0.595}, B: [2]float32{0.155, 0.07}, W: [2]float32{0.3127, 0.3290}},
	{Name: "ECI RGB v2", R: [2]float32{0.67, 0.33}, G: [2]float32{0.21, 0.71}, B: [2]float32{0.14, 0.08}, W: [2]float32{0.3457, 0.3585}},
	{Name: "Wide Gamut RGB", R: [2]float32{0.735, 0.265}, G: [2]float32{0.115, 0.826}, B: [2]float32{0.157, 0.018}, W: [2]float32{0.3457, 0.3585}},
	{Name: "CIE RGB", R: [2]float32{0.735, 0.265}, G: [2]float32{0.274, 0.717}, B: [2]float32{0.167, 0.009}, W: [2]float32{1.0 / 3, 1.0 / 3}},
	{Name: "ColorMatch RGB", R: [2]float32{0.63, 0.34}, G: [2]float32{0.295, 0.605}, B: [2]float32{0.15, 0.075}, W: [2]float32{0.3457, 0.3585}},
	{Name: "Best RGB", R: [2]float32{0.7347, 0.2653}, G: [2]float32{0.215, 0.775}, B: [2]float32{0.13, 0.035}, W: [2]float32{0.3457, 0.3585}},
	{Name: "Beta RGB", R: [2]float32{0.6888, 0.3112}, G: [2]float32{0.1986, 0.7551}, B: [2]float32{0.1265, 0.0352}, W: [2]float32{0.3457, 0.3585}},
	{Name: "Bruce RGB", R: [2]float32{0.64, 0.33}, G: [2]float32{0.28, 0.65}, B: [2]float32{0.15, 0.06}, W: [2]float32{0.3127, 0.3290}},
	{Name: "Don RGB 4", R: [2]float32{0.696, 0.3}, G: [2]float32{0.215, 0.765}, B: [2]float32{0.13, 0.035}, W: [2]float32{0.3457, 0.3585}},
	{Name: "Ekta Space PS5", R: [2]float32{0.695, 0.305}, G: [2]float32{0.26, 0.7}, B: [2]float32{0.11, 0.005}, W: [2]float32{0.3457, 0.3585}},
	{Name: "ACES AP0 (ST 2065-1)", R: [2]float32{0.7347, 0.2653}, G: [2]float32{0, 1}, B: [2]float32{0.0001, -0.0770}, W: [2]float32{0.32168, 0.33767}},
	{Name: "ACEScg AP1", R: [2]float32{0.713, 0.293}, G: [2]float32{0.165, 0.830}, B: [2]float32{0.128, 0.044}, W: [2]float32{0.32168, 0.33767}},
}

func xyY(c [2]float32) ciexyy.Color { return ciexyy.Color{X: c[0], Y: c[1], YY: 1} }
func refXY(c [2]float32) ref.XY     { return ref.XY{X: float64(c[0]), Y: float64(c[1])} }

func checkPrim(p Prim) (kind, what string, cond float64) {
	if p.After > 0 {
		outside(p.After - 1)
	}
	var to, from matrix.Matrix3
	if pn, msg := ev.Guard(func() {
		w := xyY(p.W)
		w.YY = p.wy()
		to = ciexyz.TransformToXYZForXYYPrimaries(p.prim(0), p.prim(1), p.prim(2), w)
		from = ciexyz.TransformFromXYZForXYYPrimaries(p.prim(0), p.prim(1), p.prim(2), w)
	}); pn {
		return "panic", msg, 0
	}
	T, F := toRef(to), toRef(from)
	want, ok := ref.RGBToXYZ(refXY(p.R), refXY(p.G), refXY(p.B), refXY(p.W))
	if !ok {
		return "harness", "degenerate reference", 0
	}
	cond = want.Cond()
	// a white of luminance Y scales the whole matrix by Y (and its inverse by 1/Y)
	wy := float64(p.wy())
	for i := range want {
		for j := range want[i] {
			want[i][j] *= wy
		}
	}
	tol := 1e-6 * cond * wy
	w := T.MulV(ref.V3{1, 1, 1})
	ww := ref.XYZOf(refXY(p.W), wy)
	for i := 0; i < 3; i++ {
		// the library forms X = x*Y/y in float32: the error is relative to the component
		if !(math.Abs(w[i]-ww[i]) <= tol*math.Max(1, math.Abs(ww[i])/wy)) {
			return "white", fmt.Sprintf("M*(1,1,1) = %v, white XYZ %v (tol %.3g)", w, ww, tol), cond
		}
	}
	for j, pc := range [][2]float32{p.R, p.G, p.B} {
		var e ref.V3
		e[j] = 1
		x := T.MulV(e)
		s := x[0] + x[1] + x[2]
		tolC := 1e-6 * cond // chromaticities do not scale with the white's luminance
		if !(math.Abs(x[0]/s-float64(pc[0])) <= tolC) || !(math.Abs(x[1]/s-float64(pc[1])) <= tolC) {
			return "primary", fmt.Sprintf("unit primary %d maps to chromaticity (%.9g,%.9g), want (%.9g,%.9g)", j, x[0]/s, x[1]/s, pc[0], pc[1]), cond
		}
	}
	// matrix agrees with the independent derivation (prism converts xyY->XYZ in float32, so allow float32 relative error times cond)
	for i := 0; i < 3; i++ {
		for j := 0; j < 3; j++ {
			if !(math.Abs(T[i][j]-want[i][j]) <= 1e-6*cond*(wy+math.Abs(want[i][j]))) {
				return "matrix", fmt.Sprintf("RGB->XYZ[%d][%d] = %.10g, reference %.10g (cond %.3g)", i, j, T[i][j], want[i][j], cond), cond
			}
		}
	}
	prod := F.Mul(T)
	id := ref.Identity()
	ptol := 1e-9 * T.Cond()
	for i := 0; i < 3; i++ {
		for j := 0; j < 3; j++ {
			if !(math.Abs(prod[i][j]-id[i][j]) <= ptol) {
				return "inverse", fmt.Sprintf("From*To [%d][%d] = %.12g, identity expected within %.3g", i, j, prod[i][j], ptol), cond
			}
		}
	}
	return "", "", cond
}

func relClose(a, b, scale float64) bool {
	return math.Abs(a-b) <= 1e-12*math.Max(scale, 1e-300) || (a == b)
}

func checkMat(c MatCase) (kind, what string) {
	if c.After > 0 {
		outside(c.After - 1)
	}
	if c.Exp10 != 0 {
		f := math.Pow(10, float64(c.Exp10))
		for i := range c.A {
			for j := range c.A[i] {
				c.A[i][j] *= f
				c.B[i][j] *= f
			}
			c.V[i] *= f
		}
		c.Exp10 = 0
	}
	A, B := ref.M3(c.A), ref.M3(c.B)
	a, b := fromRef(A), fromRef(B)
	switch c.Op {
	case "inverse":
		var got matrix.Matrix3
		if pn, msg := ev.Guard(func() { got = a.Inverse() }); pn {
			return "inverse-panic", "Inverse panicked on a non-singular matrix: " + msg
		}
		want, ok := A.Inv()
		if !ok {
			return "harness", "reference says singular"
		}
		G := toRef(got)
		scale := want.NormInf() * A.Cond()
		for i := 0; i < 3; i++ {
			for j := 0; j < 3; j++ {
				if !relClose(G[i][j], want[i][j], scale) {
					return "inverse", fmt.Sprintf("Inverse[%d][%d] = %.15g, reference %.15g", i, j, G[i][j], want[i][j])
				}
			}
		}
	case "mulm":
		G := toRef(a.MulM(b))
		want := A.Mul(B)
		scale := A.NormInf() * B.NormInf()
		for i := 0; i < 3; i++ {
			for j := 0; j < 3; j++ {
				if !relClose(G[i][j], want[i][j], scale) {
					return "mulm", fmt.Sprintf("MulM[%d][%d] = %.15g, reference (A*B) %.15g", i, j, G[i][j], want[i][j])
				}
			}
		}
	case "mulv":
		g := a.MulV(matrix.Vector3(c.V))
		want := A.MulV(ref.V3(c.V))
		scale := A.NormInf() * (math.Abs(c.V[0]) + math.Abs(c.V[1]) + math.Abs(c.V[2]))
		for i := 0; i < 3; i++ {
			if !relClose(g[i], want[i], scale) {
				return "mulv", fmt.Sprintf("MulV[%d] = %.15g, reference %.15g", i, g[i], want[i])
			}
		}
		// column-major convention: m.MulV(e_i) == m[i]
		for i := 0; i < 3; i++ {
			var e matrix.Vector3
			e[i] = 1
			if a.MulV(e) != a[i] {
				return "mulv-convention", fmt.Sprintf("MulV(e%d) = %v but column %d = %v", i, a.MulV(e), i, a[i])
			}
		}
	case "transpose":
		G := toRef(a.Transpose())
		if G != A.T() {
			return "transpose", fmt.Sprintf("Transpose = %v, reference %v", G, A.T())
		}
	case "singular":
		var got matrix.Matrix3
		pn, _ := ev.Guard(func() { got = a.Inverse() })
		if !pn {
			return "singular", fmt.Sprintf("Inverse of exactly singular matrix %v returned %v instead of panicking", A, toRef(got))
		}
	}
	return "", ""
}

func genXY(rt *rapid.T, label string) [2]float32 {
	c := [2]float32{rapid.Float32Range(0.01, 0.8).Draw(rt, label+"x"), rapid.Float32Range(0.01, 0.85).Draw(rt, label+"y")}
	if rapid.IntRange(0, 9).Draw(rt, label+"imaginary") == 0 {
		// imaginary primaries as in ACES AP0: slightly outside the diagram, x or y zero or negative (y never ~0)
		c[0] = rapid.Float32Range(-0.1, 0.05).Draw(rt, label+"xneg")
		if rapid.Bool().Draw(rt, label+"yneg") {
			c[1] = rapid.Float32Range(-0.1, -0.02).Draw(rt, label+"yn")
		}
	}
	return c
}

func TestC20(t *testing.T) {
	if ev.Replaying() != nil {
		switch ev.ReplayCheck() {
		case "primaries":
			var p Prim
			if err := ev.ReplayCase(&p); err != nil {
				t.Fatal(err)
			}
			if k, w, _ := checkPrim(p); k != "" {
				ev.Fail(t, "primaries", k, w, p)
			}
		default:
			var c MatCase
			if err := ev.ReplayCase(&c); err != nil {
				t.Fatal(err)
			}
			if k, w := checkMat(c); k != "" {
				ev.Fail(t, "matrix", k, w, c)
			}
		}
		fmt.Println("REPLAY case passed")
		return
	}
	ev.Rule("(a) 20 published RGB spaces; (b) rapid triangles inside the chromaticity diagram with area >= 0.01 (a third with primaries sharing coordinates exactly) and every ordered lattice triangle of a 5x5 (thorough 8x8) grid (the first 4096 of them asked a second time once all have been asked: the answer does not depend on how many distinct requests came before), and white = barycentric mix with weights >= 0.05; (c) rapid 3x3 matrices with entries in [-4,4], |det| >= 1e-3, a sixth of them structured (rotations, reflections, signed permutations, symmetric, scaled rotations; exact, single precision, seven digits, or perturbed by 1e-10..1e-5); (d) exactly singular small-integer matrices (zero/repeated column or row, integer linear dependence) and matrices with a repeated or zero column whose entries are decimal fractions or arbitrary floats. an eighth of the rapid cases directly follow a request outside the domain (non-finite or degenerate arguments) whose answer is ignored. non-trivial = generated triangle (not a built-in space) or matrix with condition number > 10")
	ev.Assume("internal/ref row-major Gauss-Jordan algebra")
	for _, p := range append(append([]Prim(nil), published...), Prim{Name: "sRGB, white Y=5e-4", R: published[0].R, G: published[0].G, B: published[0].B, W: published[0].W, WY: 5e-4},
		Prim{Name: "sRGB primaries given with their own luminances", R: published[0].R, G: published[0].G, B: published[0].B, W: published[0].W, PY: [3]float32{0.2126, 0.7152, 0.0722}},
		Prim{Name: "Rec.2020, white Y=100", R: published[5].R, G: published[5].G, B: published[5].B, W: published[5].W, WY: 100}) {
		ev.Eval(1)
		ev.NT(ev.Hash("pub", p.Name))
		k, w, cond := checkPrim(p)
		if k != "" {
			ev.Violation("primaries", k, p.Name+": "+w, p)
		}
		if ev.SampleN() < 3 {
			ev.Sample(map[string]any{"primaries": p, "cond": cond})
		}
	}
	// lattice triangles: every ordered triple of grid points that spans area >= 0.01, so that every pattern of
	// primaries sharing an x or a y coordinate exactly (right angles, axis-aligned edges, mirrored vertices) occurs
	{
		grid := []float32{0.1, 0.25, 0.4, 0.55, 0.7}
		if ev.Thorough() {
			grid = []float32{0.05, 0.15, 0.2, 0.3, 0.45, 0.6, 0.7, 0.8}
		}
		var pts [][2]float32
		for _, x := range grid {
			for _, y := range grid {
				if x+y <= 1.05 {
					pts = append(pts, [2]float32{x, y})
				}
			}
		}
		var nl int64
		done := false
		var asked []Prim // the first 4096 lattice triangles, asked again below: the answer to a request does not depend on how many distinct requests preceded it
		for i := 0; i < len(pts) && !done; i++ {
			for j := 0; j < len(pts) && !done; j++ {
				for k := 0; k < len(pts) && !done; k++ {
					r, g, b := pts[i], pts[j], pts[k]
					area := 0.5 * math.Abs(float64(g[0]-r[0])*float64(b[1]-r[1])-float64(b[0]-r[0])*float64(g[1]-r[1]))
					if area < 0.01 {
						continue
					}
					wts := [][3]float64{{1.0 / 3, 1.0 / 3, 1.0 / 3}, {0.2, 0.3, 0.5}, {0.6, 0.25, 0.15}}[(i+2*j+3*k)%3]
					p := Prim{Name: "lattice", R: r, G: g, B: b}
					p.W = [2]float32{float32(wts[0]*float64(r[0]) + wts[1]*float64(g[0]) + wts[2]*float64(b[0])), float32(wts[0]*float64(r[1]) + wts[1]*float64(g[1]) + wts[2]*float64(b[1]))}
					nl++
					if len(asked) < 4096 {
						asked = append(asked, p)
					}
					if kd, w, _ := checkPrim(p); kd != "" {
						ev.Violation("primaries", kd, w, p)
						done = true
					}
				}
			}
		}
		for i, p := range asked {
			if done {
				break
			}
			nl++
			if kd, w, _ := checkPrim(p); kd != "" {
				ev.Violation("primaries", kd, fmt.Sprintf("distinct request no. %d of this process, asked a second time after %d distinct requests: %s", len(published)+3+i+1, len(published)+3+len(asked), w), p)
				done = true
			}
		}
		ev.Class("lattice-triangles-asked-again", int64(len(asked)))
		ev.Eval(nl)
		ev.NTAdd(nl - int64(len(asked)))
		ev.Class("lattice-triangles", nl-int64(len(asked)))
	}
	n := ev.Pick(20000, 500000)
	ev.RapidChecks(n)
	ev.RapidSeed(20)
	var redraw int64
	var earlyPrim []Prim
	rapid.Check(t, func(rt *rapid.T) {
		// construction: three vertices, then ensure area >= 0.01 by resampling the third (counted)
		var p Prim
		p.R, p.G = genXY(rt, "r"), genXY(rt, "g")
		for tries := 0; ; tries++ {
			p.B = genXY(rt, "b")
			// a third of the triangles have primaries that share coordinates exactly
			if tries == 0 && rapid.IntRange(0, 2).Draw(rt, "ties") == 0 {
				pts := []*[2]float32{&p.R, &p.G, &p.B}
				for nt := rapid.IntRange(1, 3).Draw(rt, "nties"); nt > 0; nt-- {
					a, b := rapid.IntRange(0, 2).Draw(rt, "tiea"), rapid.IntRange(0, 2).Draw(rt, "tieb")
					ax := rapid.IntRange(0, 1).Draw(rt, "tieaxis")
					bx := ax
					if rapid.IntRange(0, 5).Draw(rt, "tiecross") == 0 {
						bx = 1 - ax
					}
					if v := pts[b][bx]; ax == 0 || v >= 0.01 || v <= -0.02 { // a chromaticity with y ~ 0 has no XYZ
						pts[a][ax] = v
					}
				}
			}
			area := 0.5 * math.Abs(float64(p.G[0]-p.R[0])*float64(p.B[1]-p.R[1])-float64(p.B[0]-p.R[0])*float64(p.G[1]-p.R[1]))
			inside := func(c [2]float32) bool { return c[0]+c[1] <= 1.05 }
			if area >= 0.01 && inside(p.R) && inside(p.G) && inside(p.B) {
				break
			}
			redraw++
			if tries > 50 {
				rt.Skip("no triangle")
			}
		}
		w1 := rapid.Float64Range(0.05, 0.8).Draw(rt, "w1")
		w2 := rapid.Float64Range(0.05, 0.9-w1).Draw(rt, "w2")
		w3 := 1 - w1 - w2
		if w3 < 0.05 {
			rt.Skip("white weight")
		}
		p.W = [2]float32{float32(w1*float64(p.R[0]) + w2*float64(p.G[0]) + w3*float64(p.B[0])), float32(w1*float64(p.R[1]) + w2*float64(p.G[1]) + w3*float64(p.B[1]))}
		if math.Abs(float64(p.W[1])) < 0.05 {
			rt.Skip("white with y ~ 0 (possible once imaginary primaries are allowed)")
		}
		if rapid.IntRange(0, 2).Draw(rt, "primlum") == 0 {
			for i := range p.PY {
				p.PY[i] = rapid.Float32Range(0.05, 2).Draw(rt, "py")
			}
		}
		if rapid.IntRange(0, 3).Draw(rt, "dimwhite") == 0 {
			p.WY = float32(math.Pow(10, rapid.Float64Range(-6, 3).Draw(rt, "whiteexp")))
		}
		// luminances of unrelated, extreme magnitudes (each is only a scale factor of one column or of the white)
		if rapid.IntRange(0, 5).Draw(rt, "extremelum") == 0 {
			for i := range p.PY {
				if rapid.Bool().Draw(rt, "extremepy") {
					p.PY[i] = float32(math.Pow(10, rapid.Float64Range(-20, 8).Draw(rt, "pyexp")))
				} else if p.PY[i] == 0 {
					p.PY[i] = 1
				}
			}
			if rapid.Bool().Draw(rt, "extremewy") {
				p.WY = float32(math.Pow(10, rapid.Float64Range(-20, 8).Draw(rt, "wyexp")))
			}
		}
		if rapid.IntRange(0, 7).Draw(rt, "afteroutside") == 0 {
			p.After = rapid.IntRange(1, 30).Draw(rt, "outside")
		}
		ev.Eval(1)
		ev.NT(ev.Hash("tri", p))
		if len(earlyPrim) < 400 {
			earlyPrim = append(earlyPrim, p)
		}
		k, w, cond := checkPrim(p)
		ev.Class(condClass(cond), 1)
		if k != "" {
			ev.Fail(rt, "primaries", k, w, p)
		}
	})
	ev.Set("triangle_redraws", redraw)
	// the first 400 triangles once more after all the others (see C12)
	for _, p := range earlyPrim {
		ev.Eval(1)
		if k, w, _ := checkPrim(p); k != "" {
			ev.Violation("primaries", k, "asked again after many other calls: "+w, p)
			break
		}
	}

	ev.RapidSeed(21)
	var detRedraw int64
	rapid.Check(t, func(rt *rapid.T) {
		op := rapid.SampledFrom([]string{"inverse", "mulm", "mulv", "transpose"}).Draw(rt, "op")
		sparse := rapid.Bool().Draw(rt, "sparse")
		gen := func(label string) [3][3]float64 {
			var m [3][3]float64
			for i := range m {
				for j := range m[i] {
					m[i][j] = rapid.Float64Range(-4, 4).Draw(rt, label)
					if sparse {
						// structured matrices: exact zeros and small integers off the diagonal (diagonal, diagonal plus
						// one element, triangular, permutation-like, shears), a non-zero diagonal
						switch z := rapid.IntRange(0, 9).Draw(rt, label+"z"); {
						case i != j && z < 6:
							m[i][j] = 0
						case z == 6:
							m[i][j] = float64(rapid.IntRange(-2, 2).Draw(rt, label+"int"))
						}
						if i == j && m[i][j] == 0 {
							m[i][j] = 1
						}
					}
				}
			}
			return m
		}
		c := MatCase{Op: op}
		if rapid.IntRange(0, 2).Draw(rt, "scaled") == 0 {
			c.Exp10 = rapid.IntRange(-12, 12).Draw(rt, "exp10")
		}
		c.A = gen("a")
		if rapid.IntRange(0, 5).Draw(rt, "structured") == 0 {
			// matrices with structure a shortcut may look for: rotations (a product of three axis rotations), reflections,
			// permutations with signs, symmetric and diagonal ones - exact, or known only to single precision, to seven
			// digits, or perturbed by 1e-10..1e-5 in every entry
			ax, ay, az := rapid.Float64Range(-3.2, 3.2).Draw(rt, "ax"), rapid.Float64Range(-3.2, 3.2).Draw(rt, "ay"), rapid.Float64Range(-3.2, 3.2).Draw(rt, "az")
			rx := ref.M3{{1, 0, 0}, {0, math.Cos(ax), -math.Sin(ax)}, {0, math.Sin(ax), math.Cos(ax)}}
			ry := ref.M3{{math.Cos(ay), 0, math.Sin(ay)}, {0, 1, 0}, {-math.Sin(ay), 0, math.Cos(ay)}}
			rz := ref.M3{{math.Cos(az), -math.Sin(az), 0}, {math.Sin(az), math.Cos(az), 0}, {0, 0, 1}}
			m := rx.Mul(ry).Mul(rz)
			switch rapid.IntRange(0, 4).Draw(rt, "structure") {
			case 1: // reflection
				for j := 0; j < 3; j++ {
					m[0][j] = -m[0][j]
				}
			case 2: // signed permutation
				pm := rapid.Permutation([]int{0, 1, 2}).Draw(rt, "sperm")
				m = ref.M3{}
				for i2, j := range pm {
					m[i2][j] = float64(rapid.SampledFrom([]int{1, -1}).Draw(rt, "sign"))
				}
			case 3: // symmetric: R D R^T
				d := ref.M3{{rapid.Float64Range(0.2, 3).Draw(rt, "d0"), 0, 0}, {0, rapid.Float64Range(0.2, 3).Draw(rt, "d1"), 0}, {0, 0, rapid.Float64Range(0.2, 3).Draw(rt, "d2")}}
				m = m.Mul(d).Mul(m.T())
			case 4: // a rotation scaled
				k := rapid.Float64Range(0.3, 3).Draw(rt, "rscale")
				for i2 := range m {
					for j := range m[i2] {
						m[i2][j] *= k
					}
				}
			}
			switch rapid.IntRange(0, 3).Draw(rt, "precision") {
			case 1:
				for i2 := range m {
					for j := range m[i2] {
						m[i2][j] = float64(float32(m[i2][j]))
					}
				}
			case 2:
				for i2 := range m {
					for j := range m[i2] {
						m[i2][j] = math.Round(m[i2][j]*1e7) / 1e7
					}
				}
			case 3:
				e := math.Pow(10, rapid.Float64Range(-10, -5).Draw(rt, "perturb"))
				for i2 := range m {
					for j := range m[i2] {
						m[i2][j] += e * float64(rapid.IntRange(-3, 3).Draw(rt, "pe"))
					}
				}
			}
			c.A = m
		}
		if op == "inverse" {
			for tries := 0; math.Abs(ref.M3(c.A).Det()) < 1e-3; tries++ {
				detRedraw++
				c.A = gen("a")
				if tries > 20 {
					rt.Skip("det")
				}
			}
		}
		if op == "mulm" {
			c.B = gen("b")
		}
		if op == "mulv" {
			for i := range c.V {
				c.V[i] = rapid.Float64Range(-4, 4).Draw(rt, "v")
			}
		}
		if rapid.IntRange(0, 7).Draw(rt, "afteroutside") == 0 {
			c.After = rapid.IntRange(1, 30).Draw(rt, "outside")
		}
		ev.Eval(1)
		if cd := ref.M3(c.A).Cond(); cd > 10 {
			ev.NT(ev.Hash("mat", c))
		}
		if ev.SampleN() < 6 {
			ev.Sample(c)
		}
		if k, w := checkMat(c); k != "" {
			ev.Fail(rt, "matrix", k, w, c)
		}
	})
	ev.Set("det_redraws", detRedraw)

	ev.RapidChecks(ev.Pick(5000, 100000))
	ev.RapidSeed(22)
	rapid.Check(t, func(rt *rapid.T) {
		iv := func(l string) float64 { return float64(rapid.IntRange(-6, 6).Draw(rt, l)) }
		var m [3][3]float64
		u := [3]float64{iv("u"), iv("u"), iv("u")}
		v := [3]float64{iv("v"), iv("v"), iv("v")}
		kind := rapid.IntRange(0, 4).Draw(rt, "kind")
		var w [3]float64
		switch kind {
		case 0: // zero vector
		case 1: // repeated
			w = u
		case 2: // integer combination
			a, b := iv("a"), iv("b")
			for i := range w {
				w[i] = a*u[i] + b*v[i]
			}
		case 3: // multiple
			a := iv("a")
			for i := range w {
				w[i] = a * v[i]
			}
		case 4: // rank 1
			a, b := iv("a"), iv("b")
			for i := range w {
				v[i] = a * u[i]
				w[i] = b * u[i]
			}
		}
		rows := [3][3]float64{u, v, w}
		perm := rapid.Permutation([]int{0, 1, 2}).Draw(rt, "perm")
		for i := 0; i < 3; i++ {
			m[i] = rows[perm[i]]
		}
		if rapid.Bool().Draw(rt, "transpose") {
			m = ref.M3(m).T()
		}
		if rapid.IntRange(0, 3).Draw(rt, "realcolumns") == 0 {
			// "built from repeated or zero columns" with entries that are NOT small integers: decimal fractions and
			// arbitrary floats, whose products are inexact.  A repeated or zero column makes the cofactor expansion
			// cancel term by term whatever the rounding, so the documented panic is owed here too (a repeated ROW
			// is not exact in floating point and is not demanded)
			fv := func(l string) float64 {
				if rapid.Bool().Draw(rt, l+"dec") {
					return float64(rapid.IntRange(-40, 40).Draw(rt, l+"tenths")) / 10
				}
				return rapid.Float64Range(-4, 4).Draw(rt, l)
			}
			col := [3]float64{fv("c"), fv("c"), fv("c")}
			other := [3]float64{fv("o"), fv("o"), fv("o")}
			pq := rapid.SampledFrom([][3]int{{0, 1, 2}, {0, 2, 1}, {1, 2, 0}}).Draw(rt, "which")
			kind = 5
			if rapid.IntRange(0, 3).Draw(rt, "zerocol") == 0 {
				kind = 6
			}
			for r := 0; r < 3; r++ {
				m[r][pq[0]], m[r][pq[1]], m[r][pq[2]] = col[r], col[r], other[r]
				if kind == 6 {
					m[r][pq[0]], m[r][pq[1]] = 0, fv("p")
				}
			}
		}
		c := MatCase{Op: "singular", A: m}
		if kind >= 5 {
			// a repeated or zero column stays exactly singular at any magnitude
			c.Exp10 = rapid.SampledFrom([]int{0, 0, -95, -40, 40, 95}).Draw(rt, "exp10")
		}
		ev.Eval(1)
		ev.NT(ev.Hash("sing", c))
		ev.Class(fmt.Sprintf("singular-kind-%d", kind), 1)
		if k, w := checkMat(c); k != "" {
			ev.Fail(rt, "matrix", k, w, c)
		}
	})
	if ev.Violations() > 0 {
		t.Fail()
	}
}

func condClass(c float64) string {
	switch {
	case c < 10:
		return "triangle-cond<10"
	case c < 100:
		return "triangle-cond<100"
	case c < 1000:
		return "triangle-cond<1e3"
	}
	return "triangle-cond>=1e3"
}
