// C06 — an embedded ICC profile is returned byte-for-byte, or reported absent or corrupt.
package c06

import (
	"bytes"
	"compress/zlib"
	"encoding/binary"
	"fmt"
	"io"
	"path/filepath"
	"reflect"
	"testing"
	"verif/internal/src"

	"github.com/mandykoh/prism/meta/icc"
	"github.com/mandykoh/prism/meta/jpegmeta"
	"github.com/mandykoh/prism/meta/pngmeta"
	"github.com/mandykoh/prism/meta/webpmeta"
	"pgregory.net/rapid"

	"verif/internal/build"
	"verif/internal/ev"
	"verif/internal/gen"
	"verif/internal/ld"
)

func TestMain(m *testing.M) { ev.Main(m, "C06", "exploration") }

// Expect describes what a correct reader may return.
type Expect struct {
	Kind    string `json:"kind"` // "profile" (exactly these bytes), "none" (nil,nil), "error" (nil,err), "profile-or-error"
	Profile []byte `json:"profile,omitempty"`
}

type Case struct {
	Format string `json:"format"`
	Data   []byte `json:"data"`
	W      uint32 `json:"w"`
	H      uint32 `json:"h"`
	Bits   uint32 `json:"bits"`
	Expect Expect `json:"expect"`
	Desc   string `json:"desc"`
	Class  string `json:"class"`
	// Prev: the case loaded immediately before this one (only recorded for "stale" violations, which need the
	// two loads in sequence: results handed out earlier must stay valid after later loads)
	Prev *Case `json:"prev,omitempty"`
	// Loader "auto": through the auto-detecting loader instead of the format's own.  Std != "": the loader reads
	// from a standard-library reader of that type positioned after Prefix unrelated bytes (an image inside a
	// container, a second image in a stream).
	Loader string `json:"loader,omitempty"`
	Std    string `json:"std,omitempty"`
	Prefix int    `json:"prefix,omitempty"`
}

// the previous case's returned profile bytes and what they must (still) be
var prevICC, prevWant []byte
var prevCase *Case

func check(c Case) (kind, what string) {
	if c.Prev != nil {
		// replay of a two-step case
		prevICC, prevWant, prevCase = nil, nil, nil
		p := *c.Prev
		p.Prev = nil
		if k, w := check(p); k != "" {
			return k, w
		}
	}
	name := ld.ForFormat(c.Format)
	first := name
	if c.Loader == "auto" {
		first = "auto"
	}
	var o ld.Outcome
	if c.Std != "" {
		o = ld.RunStd(first, c.Std, c.Prefix, c.Data, filepath.Join(ev.Root(), "out", "run", "C06"))
	} else {
		o = ld.Run(first, bytes.NewReader(c.Data))
	}
	// results handed out by the previous load must not have been changed by this one
	if prevICC != nil && !bytes.Equal(prevICC, prevWant) {
		pc := prevCase
		prevICC, prevWant, prevCase = nil, nil, nil
		cc := c
		cc.Prev = pc
		staleCase = &cc
		return c.Format + "/stale-after-next-load", fmt.Sprintf("the profile bytes returned for the previous image (%s) changed after this image (%s) was loaded", pc.Desc, c.Desc)
	}
	if o.ICC != nil && (c.Expect.Kind == "profile" || c.Expect.Kind == "profile-or-error") && bytes.Equal(o.ICC, c.Expect.Profile) {
		cp := c
		cp.Prev = nil
		prevICC, prevWant, prevCase = o.ICC, append([]byte(nil), c.Expect.Profile...), &cp
	} else {
		prevICC, prevWant, prevCase = nil, nil, nil
	}
	k := c.Format + "/" + c.Class + "/"
	if o.Panic != "" {
		return k + "panic", o.Panic
	}
	if !o.OK || o.MDNil {
		return k + "load-failed", fmt.Sprintf("Load failed (%s) for %s; basic metadata must still be returned", o.Err, c.Desc)
	}
	if o.W != c.W || o.H != c.H || o.Bits != c.Bits || o.Format != c.Format {
		return k + "basic-metadata", fmt.Sprintf("basic metadata %s, expected %s %dx%d/%d (%s)", o, c.Format, c.W, c.H, c.Bits, c.Desc)
	}
	isErr := o.ICCNil && o.ICCErr != ""
	isNone := o.ICCNil && o.ICCErr == ""
	switch c.Expect.Kind {
	case "none":
		if !isNone {
			return k + "expected-none", fmt.Sprintf("no embedded profile, but accessor gave %d bytes / error %q (%s)", o.ICCLen, o.ICCErr, c.Desc)
		}
	case "error":
		if !isErr {
			return k + "expected-error", fmt.Sprintf("damaged profile: accessor gave %d bytes (nil=%v), error %q; an error is required (%s)", o.ICCLen, o.ICCNil, o.ICCErr, c.Desc)
		}
	case "profile", "profile-or-error":
		if isErr && c.Expect.Kind == "profile-or-error" {
			return "", ""
		}
		if o.ICCErr != "" || o.ICCNil {
			return k + "expected-profile", fmt.Sprintf("embedded profile of %d bytes not returned: nil=%v error %q (%s)", len(c.Expect.Profile), o.ICCNil, o.ICCErr, c.Desc)
		}
		if !bytes.Equal(o.ICC, c.Expect.Profile) {
			return k + "different-bytes", fmt.Sprintf("returned %d profile bytes differ from the %d embedded bytes (first difference at %d) (%s)", len(o.ICC), len(c.Expect.Profile), firstDiff(o.ICC, c.Expect.Profile), c.Desc)
		}
		// ICCProfile() agrees with parsing the payload directly
		var md interface {
			ICCProfile() (*icc.Profile, error)
			ICCProfileData() ([]byte, error)
		}
		switch name {
		case "png":
			m, _, _ := pngmeta.Load(bytes.NewReader(c.Data))
			md = m
		case "jpeg":
			m, _, _ := jpegmeta.Load(bytes.NewReader(c.Data))
			md = m
		default:
			m, _, _ := webpmeta.Load(bytes.NewReader(c.Data))
			md = m
		}
		var p1, p2 *icc.Profile
		var e1, e2 error
		if pn, msg := ev.Guard(func() {
			p1, e1 = md.ICCProfile()
			p2, e2 = icc.NewProfileReader(bytes.NewReader(c.Expect.Profile)).ReadProfile()
		}); pn {
			return k + "panic", msg
		}
		if (e1 == nil) != (e2 == nil) || (e1 == nil && !reflect.DeepEqual(p1.Header, p2.Header)) {
			return k + "iccprofile-disagrees", fmt.Sprintf("ICCProfile() (%v) disagrees with parsing the embedded bytes directly (%v)", e1, e2)
		}
		if e1 == nil {
			d1, de1 := p1.Description()
			d2, de2 := p2.Description()
			if d1 != d2 || (de1 == nil) != (de2 == nil) {
				return k + "iccprofile-disagrees", fmt.Sprintf("Description via metadata %q/%v, direct %q/%v", d1, de1, d2, de2)
			}
		}
		// accessor sequence: the raw bytes are still the embedded bytes after the parsed profile (and its
		// description) has been asked for, on the same metadata value, and the slice handed out earlier is intact
		var again []byte
		var eAgain error
		if pn, msg := ev.Guard(func() {
			again, eAgain = md.ICCProfileData()
			if rnd := len(c.Data) % 3; rnd > 0 {
				for i := 0; i < rnd; i++ {
					md.ICCProfile()
					again, eAgain = md.ICCProfileData()
				}
			}
		}); pn {
			return k + "panic", msg
		}
		if eAgain != nil || !bytes.Equal(again, c.Expect.Profile) {
			return k + "different-bytes-after-parse", fmt.Sprintf("after ICCProfile() the raw accessor returns %d bytes / error %v that differ from the %d embedded bytes (first difference at %d) (%s)", len(again), eAgain, len(c.Expect.Profile), firstDiff(again, c.Expect.Profile), c.Desc)
		}
		if !bytes.Equal(o.ICC, c.Expect.Profile) {
			return k + "different-bytes-after-parse", fmt.Sprintf("the bytes handed out before changed (first difference at %d) (%s)", firstDiff(o.ICC, c.Expect.Profile), c.Desc)
		}
	}
	return "", ""
}

// staleCase carries the two-step case of a stale-result violation to the reporting site
var staleCase *Case

func firstDiff(a, b []byte) int {
	for i := 0; i < len(a) && i < len(b); i++ {
		if a[i] != b[i] {
			return i
		}
	}
	if len(a) < len(b) {
		return len(a)
	}
	return len(b)
}

// payload: valid ICC profile of about n bytes (possibly with a disagreeing size field, trailing bytes or zero
// padding), or arbitrary bytes
func payload(rt *rapid.T, n int) []byte { return gen.ProfilePayload(rt, "icc", n) }

// ---- PNG

func genPNG(rt *rapid.T, maxICC int) Case {
	pair := rapid.SampledFrom(build.LegalPNG).Draw(rt, "pngtype")
	p := build.PNG{ColorType: pair[0], Depth: pair[1], W: uint32(rapid.IntRange(1, 70000).Draw(rt, "w")), H: uint32(rapid.IntRange(1, 70000).Draw(rt, "h")), Interlace: byte(rapid.IntRange(0, 1).Draw(rt, "interlace"))}
	c := Case{Format: "PNG", W: p.W, H: p.H, Bits: uint32(p.Depth)}
	class := rapid.SampledFrom([]string{"intact", "intact", "intact", "none", "corrupt-deflate"}).Draw(rt, "class")
	c.Class = class
	n := rapid.IntRange(0, 4).Draw(rt, "nanc")
	at := rapid.IntRange(0, n).Draw(rt, "iccat")
	var note string
	for i := 0; i <= n; i++ {
		if i == at && class != "none" {
			size := gen.ICCSize(rt, "iccsize", maxICC)
			prof := payload(rt, size)
			nameLen := gen.Biased(rt, "namelen", 1, 79, 1, 78, 79)
			name := bytes.Repeat([]byte{'N'}, nameLen)
			name[nameLen-1] = byte(rapid.IntRange(0x21, 0x7E).Draw(rt, "namech"))
			if rapid.Bool().Draw(rt, "latin1name") {
				// printable Latin-1 (0x20-0x7E, 0xA1-0xFF), as the PNG specification allows
				for k := range name {
					ch := rapid.IntRange(0x21, 0xFF).Draw(rt, "latin1")
					if ch >= 0x7F && ch <= 0xA0 {
						ch = 0xE9
					}
					name[k] = byte(ch)
				}
			}
			level := rapid.SampledFrom([]int{0, 1, 6, 9, -2, -10, -11, -12}).Draw(rt, "level")
			ch := build.ICCPChunk(string(name), prof, level)
			c.Expect = Expect{Kind: "profile", Profile: prof}
			note = fmt.Sprintf("iCCP name %d bytes, level %d, profile %d bytes (%d compressed)", nameLen, level, len(prof), len(ch.Data)-nameLen-2)
			if class == "corrupt-deflate" {
				z := append([]byte(nil), ch.Data[nameLen+2:]...)
				switch rapid.IntRange(0, 2).Draw(rt, "damage") {
				case 0: // flip bytes
					k := rapid.IntRange(1, 3).Draw(rt, "nflips")
					for j := 0; j < k; j++ {
						pos := rapid.IntRange(0, len(z)-1).Draw(rt, "flippos")
						z[pos] ^= byte(rapid.IntRange(1, 255).Draw(rt, "flipmask"))
					}
					note += ", byte flips in the zlib stream"
				case 1: // truncate the stream (chunk length stays consistent)
					z = z[:rapid.IntRange(0, len(z)-1).Draw(rt, "cut")]
					note += fmt.Sprintf(", zlib stream truncated to %d bytes", len(z))
				default: // damage the trailer checksum
					z[len(z)-1] ^= 0x55
					note += ", adler32 damaged"
				}
				// what does an independent inflater make of it?
				zr, err := zlib.NewReader(bytes.NewReader(z))
				var out []byte
				if err == nil {
					out, err = io.ReadAll(zr)
				}
				if err != nil {
					c.Expect = Expect{Kind: "error"}
				} else {
					c.Expect = Expect{Kind: "profile", Profile: out}
					note += " (still inflates)"
				}
				if len(z) == 0 {
					// an iCCP chunk whose compressed stream is empty is not merely a corrupt stream: the chunk
					// itself is malformed (no room for the stream); do not demand basic metadata for it
					z = []byte{0x78}
					c.Expect = Expect{Kind: "error"}
				}
				ch = build.RawICCPChunk(string(name), z)
			}
			// half of the files get a filler chunk that puts one of the iCCP chunk's internal positions (start of
			// its data, end of the profile name, end of its data, end of its CRC) within 4 bytes of a multiple of
			// 4096 in the file - where a reader's buffer is refilled
			if rapid.Bool().Draw(rt, "align") {
				off := 8 + 25
				for _, pc := range p.Pre {
					off += 12 + len(pc.Data)
				}
				x := []int{8, 8 + nameLen + 2, 8 + len(ch.Data), 12 + len(ch.Data)}[rapid.IntRange(0, 3).Draw(rt, "alignwhat")]
				delta := rapid.IntRange(-4, 4).Draw(rt, "aligndelta")
				k := rapid.IntRange(1, 3).Draw(rt, "alignblock")
				L := ((k*4096+delta-(off+12+x))%4096 + 4096) % 4096
				p.Pre = append(p.Pre, build.Chunk{Type: "tEXt", Data: make([]byte, L)})
				note += fmt.Sprintf(", aligned by a %d-byte tEXt chunk", L)
			}
			p.Pre = append(p.Pre, ch)
		}
		if i < n {
			typ, fixed := gen.PNGAncillary(rt, "anc", p.ColorType)
			ln := rapid.IntRange(0, 5000).Draw(rt, "anclen")
			if fixed >= 0 {
				ln = fixed
			}
			p.Pre = append(p.Pre, build.Chunk{Type: typ, Data: make([]byte, ln)})
		}
	}
	if class == "none" {
		c.Expect = Expect{Kind: "none"}
	}
	if p.ColorType == 3 {
		p.Pre = append(p.Pre, build.Chunk{Type: "PLTE", Data: []byte{1, 2, 3}})
	}
	p.IDAT = make([]byte, rapid.SampledFrom([]int{4, 4, 100, 5000, 9000}).Draw(rt, "idatlen"))
	c.Data, _ = p.Bytes()
	c.Desc = fmt.Sprintf("PNG %dx%d ct=%d depth=%d, %d pre-IDAT chunks; %s", p.W, p.H, p.ColorType, p.Depth, len(p.Pre), note)
	return c
}

// ---- JPEG

type item struct {
	kind       string // "sof", "icc", "fill"
	num, total int
	part       []byte
	seg        build.Seg
}

// model: what must a reader that stops as early as C18 allows (and no earlier) have concluded?
func jpegModel(items []item) Expect {
	sof := false
	T := -1
	seen := map[int][]byte{}
	anomaly := false
	reachedP := false
	var prof []byte
	complete := func() bool {
		if T < 0 || len(seen) != T {
			return false
		}
		return true
	}
	for _, it := range items {
		switch it.kind {
		case "sof":
			sof = true
		case "icc":
			if reachedP {
				// damage after the earliest stopping point may legitimately go unseen
				if it.total != T || it.num < 1 || it.num > T || seen[it.num] != nil {
					return Expect{Kind: "profile-or-error", Profile: prof}
				}
				continue
			}
			if anomaly {
				continue
			}
			if T < 0 {
				T = it.total
			} else if it.total != T {
				anomaly = true
				continue
			}
			if it.num < 1 || it.num > T {
				anomaly = true
				continue
			}
			if seen[it.num] != nil {
				anomaly = true
				continue
			}
			seen[it.num] = it.part
			if it.part == nil {
				seen[it.num] = []byte{}
			}
		}
		if !reachedP && !anomaly && sof && complete() {
			reachedP = true
			prof = nil
			for i := 1; i <= T; i++ {
				prof = append(prof, seen[i]...)
			}
			if prof == nil {
				prof = []byte{}
			}
		}
	}
	switch {
	case reachedP:
		return Expect{Kind: "profile", Profile: prof}
	case T < 0:
		return Expect{Kind: "none"}
	default:
		return Expect{Kind: "error"}
	}
}

func genJPEG(rt *rapid.T, maxICC int, exhaustPerm []int) Case {
	c := Case{Format: "JPEG", Bits: 8}
	h, w := uint16(rapid.IntRange(1, 65535).Draw(rt, "h")), uint16(rapid.IntRange(1, 65535).Draw(rt, "w"))
	c.W, c.H = uint32(w), uint32(h)
	sofSeg := build.Seg{Marker: byte(rapid.SampledFrom([]int{0xC0, 0xC2}).Draw(rt, "sof")), Data: build.SOF(8, h, w, rapid.SampledFrom([][][3]byte{{{1, 0x22, 0}, {2, 0x11, 1}, {3, 0x11, 1}}, {{1, 0x11, 0}}, {{1, 0x11, 0}, {2, 0x11, 1}, {3, 0x11, 1}, {4, 0x11, 0}}, {{'R', 0x11, 0}, {'G', 0x11, 0}, {'B', 0x11, 0}}, {{1, 0x21, 0}, {2, 0x11, 1}, {3, 0x11, 1}}}).Draw(rt, "components"))}
	class := rapid.SampledFrom([]string{"intact", "intact", "intact", "none", "missing-chunk", "bad-number", "inconsistent-total"}).Draw(rt, "class")
	if exhaustPerm != nil {
		class = "intact"
	}
	c.Class = class
	var chunks []item
	var note string
	if class != "none" {
		size := gen.ICCSize(rt, "iccsize", maxICC)
		if exhaustPerm != nil {
			size = rapid.IntRange(len(exhaustPerm), 4000).Draw(rt, "smallsize")
		}
		prof := payload(rt, size)
		size = len(prof) // a payload may carry trailing bytes beyond the requested size
		minC := (size + 65518) / 65519
		maxC := size
		if maxC > 255 {
			maxC = 255
		}
		nch := minC
		switch rapid.IntRange(0, 3).Draw(rt, "nchclass") {
		case 0:
		case 1:
			nch = maxC
			if rapid.Bool().Draw(rt, "cap") && nch > 9 && minC <= 9 {
				nch = 9
			}
		default:
			hi := minC + 5
			if hi > maxC {
				hi = maxC
			}
			nch = rapid.IntRange(minC, hi).Draw(rt, "nch")
		}
		if exhaustPerm != nil {
			nch = len(exhaustPerm)
		}
		if (class == "missing-chunk") && nch < 2 && size >= 2 {
			nch = 2
		}
		rest := prof
		var parts [][]byte
		for i := 0; i < nch; i++ {
			left := nch - i - 1
			n := len(rest)
			if left > 0 {
				lo := len(rest) - left*65519
				if lo < 1 {
					lo = 1
				}
				hi := len(rest) - left
				if hi > 65519 {
					hi = 65519
				}
				if lo > hi {
					lo = hi
				}
				n = gen.Biased(rt, "chunksize", lo, hi)
			}
			parts = append(parts, rest[:n])
			rest = rest[n:]
		}
		idx := make([]int, nch)
		for i := range idx {
			idx[i] = i
		}
		order := idx
		if exhaustPerm != nil {
			order = exhaustPerm
		} else {
			switch rapid.IntRange(0, 2).Draw(rt, "order") {
			case 1:
				order = nil
				for i := nch - 1; i >= 0; i-- {
					order = append(order, i)
				}
			case 2:
				order = rapid.Permutation(idx).Draw(rt, "perm")
			}
		}
		for _, ci := range order {
			chunks = append(chunks, item{kind: "icc", num: ci + 1, total: nch, part: parts[ci]})
		}
		note = fmt.Sprintf("profile %d bytes in %d chunks, file order %v", size, nch, trunc(order))
		// damage
		switch class {
		case "missing-chunk":
			if len(chunks) >= 2 {
				k := rapid.IntRange(0, len(chunks)-1).Draw(rt, "drop")
				note += fmt.Sprintf("; chunk #%d dropped", chunks[k].num)
				chunks = append(chunks[:k:k], chunks[k+1:]...)
			} else {
				c.Class = "intact"
			}
		case "bad-number":
			k := rapid.IntRange(0, len(chunks)-1).Draw(rt, "victim")
			if rapid.Bool().Draw(rt, "zero") || nch == 255 {
				chunks[k].num = 0
			} else {
				chunks[k].num = rapid.IntRange(nch+1, 255).Draw(rt, "badnum")
			}
			note += fmt.Sprintf("; chunk at position %d renumbered %d", k, chunks[k].num)
		case "inconsistent-total":
			k := rapid.IntRange(0, len(chunks)-1).Draw(rt, "victim")
			nt := rapid.IntRange(0, 255).Draw(rt, "badtotal")
			if nt == nch {
				nt = (nch + 1) % 256
			}
			chunks[k].total = nt
			note += fmt.Sprintf("; chunk at position %d claims total %d", k, nt)
		}
	}
	// interleave SOF and fillers
	sofAt := rapid.IntRange(0, len(chunks)).Draw(rt, "sofat")
	var items []item
	fill := func() {
		if len(chunks) > 20 && rapid.IntRange(0, 9).Draw(rt, "sparse") > 0 {
			return
		}
		for n := rapid.IntRange(0, 2).Draw(rt, "nfill"); n > 0; n-- {
			switch rapid.IntRange(0, 3).Draw(rt, "fillkind") {
			case 2: // what real files carry next to the profile: Exif, XMP, MPF, FlashPix, Photoshop resources ...
				items = append(items, item{kind: "fill", seg: build.Vocab(rapid.SampledFrom(build.VocabKinds).Draw(rt, "vocab"), rapid.IntRange(0, 999).Draw(rt, "vocabvar"))})
				continue
			case 3: // APP2 segments that are NOT profile chunks: another identifier (or a near miss of the ICC one),
				// long enough to have bytes where a chunk keeps its number and total, and those bytes plausible
				id := rapid.SampledFrom([]string{"MPF\x00MM\x00*\x00\x00\x00\x08", "FPXR\x00\x00\x01\x00\x01\xff\xff\xff", "ICC_PROFILF\x00", "ICC_PROFILE\x01", "icc_profile\x00", "ICC PROFILE\x00", "ICC_PROFILE_", "\x00CC_PROFILE\x00", "ICC_PROFIL\x00\x00"}).Draw(rt, "app2id")
				tot := 1
				if len(chunks) > 0 {
					tot = chunks[0].total
				}
				d := append([]byte(id), byte(rapid.IntRange(0, tot+1).Draw(rt, "app2num")), byte(rapid.SampledFrom([]int{tot, tot, 1, 0, 255}).Draw(rt, "app2total")))
				d = append(d, bytes.Repeat([]byte{0xEE}, rapid.IntRange(0, 40).Draw(rt, "app2len"))...)
				items = append(items, item{kind: "fill", seg: build.Seg{Marker: 0xE2, Data: d}})
				continue
			}
			m := byte(rapid.SampledFrom([]int{0xE0, 0xE1, 0xED, 0xFE, 0xDB}).Draw(rt, "fillmarker"))
			d := make([]byte, rapid.IntRange(0, 300).Draw(rt, "filllen"))
			if m == 0xDB {
				d = build.DQT(0)
			}
			items = append(items, item{kind: "fill", seg: build.Seg{Marker: m, Data: d}})
		}
	}
	for i := 0; i <= len(chunks); i++ {
		fill()
		if i == sofAt {
			items = append(items, item{kind: "sof", seg: sofSeg})
		}
		if i < len(chunks) {
			ch := chunks[i]
			ch.seg = build.ICCSeg(byte(ch.num), byte(ch.total), ch.part)
			items = append(items, ch)
		}
	}
	// half of the files get a COM segment in front of one ICC chunk (or the frame header) sized so that one of that
	// segment's positions - start of its payload, end of its ICC header, its end - lies within 4 bytes of a
	// multiple of 4096 in the file, where a reader's buffer is refilled
	if len(items) > 0 && rapid.Bool().Draw(rt, "align") {
		idx := rapid.IntRange(0, len(items)-1).Draw(rt, "alignitem")
		off := 2
		for _, it := range items[:idx] {
			off += 4 + len(it.seg.Data)
		}
		x := []int{4, 4 + 14, 4 + len(items[idx].seg.Data)}[rapid.IntRange(0, 2).Draw(rt, "alignwhat")]
		delta := rapid.IntRange(-4, 4).Draw(rt, "aligndelta")
		L := ((delta-(off+4+x))%4096 + 8192) % 4096
		pad := item{kind: "fill", seg: build.Seg{Marker: 0xFE, Data: make([]byte, L)}}
		items = append(items[:idx], append([]item{pad}, items[idx:]...)...)
		note += fmt.Sprintf("; item %d aligned to a 4096 boundary by a %d-byte COM segment", idx, L)
	}
	var segs []build.Seg
	fillBytes := rapid.IntRange(0, 4).Draw(rt, "fillbytes") == 0
	for _, it := range items {
		if fillBytes && rapid.IntRange(0, 2).Draw(rt, "fillhere") == 0 {
			it.seg.Fill = rapid.SampledFrom([]int{1, 2, 3, 50}).Draw(rt, "nfill") // 0xFF fill bytes before the marker (T.81 B.1.1.2)
		}
		segs = append(segs, it.seg)
	}
	if fillBytes {
		note += ", fill bytes before some markers"
	}
	c.Data, _ = build.JPEG{Segs: segs, SOS: []byte{3, 1, 0, 2, 0x11, 3, 0x11, 0, 63, 0}, Entropy: []byte{9, 8, 7}}.Bytes()
	c.Expect = jpegModel(items)
	c.Desc = fmt.Sprintf("JPEG %dx%d, %d segments, SOF before ICC chunk position %d; %s; model expects %s", w, h, len(segs), sofAt, note, c.Expect.Kind)
	return c
}

func trunc(v []int) []int {
	if len(v) > 10 {
		return v[:10]
	}
	return v
}

// ---- WebP

func genWebP(rt *rapid.T, maxICC int) Case {
	c := Case{Format: "WebP", Bits: 8}
	wm, hm := uint32(rapid.IntRange(0, 1<<14-1).Draw(rt, "w")), uint32(rapid.IntRange(0, 1<<14-1).Draw(rt, "h"))
	c.W, c.H = wm+1, hm+1
	class := rapid.SampledFrom([]string{"intact", "intact", "intact", "none", "flag-without-iccp", "truncated-iccp"}).Draw(rt, "class")
	c.Class = class
	flags := byte(rapid.IntRange(0, 255).Draw(rt, "flags"))
	var w build.WebP
	tailChunks := func() {
		if flags&0x10 != 0 {
			w.Chunks = append(w.Chunks, build.RIFFChunk{FourCC: "ALPH", Data: make([]byte, rapid.IntRange(1, 30).Draw(rt, "alph"))})
		}
		if rapid.Bool().Draw(rt, "lossy") {
			w.Chunks = append(w.Chunks, build.RIFFChunk{FourCC: "VP8 ", Data: build.VP8Header(uint16(c.W), uint16(c.H), 0, 0, 8)})
		} else {
			w.Chunks = append(w.Chunks, build.RIFFChunk{FourCC: "VP8L", Data: build.VP8LHeader(uint16(wm), uint16(hm), false)})
		}
	}
	note := ""
	switch class {
	case "none":
		flags &^= 0x20
		w.Chunks = append(w.Chunks, build.RIFFChunk{FourCC: "VP8X", Data: build.VP8XHeader(flags, wm, hm)})
		if rapid.Bool().Draw(rt, "strayiccp") {
			// an ICCP chunk without the flag is not "embedded as the format specifies"; readers ignore it
			w.Chunks = append(w.Chunks, build.RIFFChunk{FourCC: "EXIF", Data: []byte("ICCP")})
		}
		tailChunks()
		c.Expect = Expect{Kind: "none"}
	case "flag-without-iccp":
		flags |= 0x20
		w.Chunks = append(w.Chunks, build.RIFFChunk{FourCC: "VP8X", Data: build.VP8XHeader(flags, wm, hm)})
		tailChunks()
		c.Expect = Expect{Kind: "error"}
		note = "ICC flag set but the next chunk is not ICCP"
	default:
		flags |= 0x20
		size := gen.ICCSize(rt, "iccsize", maxICC)
		prof := payload(rt, size)
		w.Chunks = append(w.Chunks, build.RIFFChunk{FourCC: "VP8X", Data: build.VP8XHeader(flags, wm, hm)}, build.RIFFChunk{FourCC: "ICCP", Data: prof})
		tailChunks()
		c.Expect = Expect{Kind: "profile", Profile: prof}
		note = fmt.Sprintf("ICCP %d bytes (odd=%v)", size, size%2 == 1)
	}
	c.Data, _ = w.Bytes()
	if class == "truncated-iccp" {
		// cut the file inside the ICCP payload
		start := 12 + 8 + 10 + 8
		end := start + len(c.Expect.Profile)
		cut := rapid.IntRange(start, end-1).Draw(rt, "cut")
		c.Data = c.Data[:cut]
		c.Expect = Expect{Kind: "error"}
		note += fmt.Sprintf("; file truncated at %d (inside the ICCP payload %d..%d)", cut, start, end)
	}
	c.Desc = fmt.Sprintf("WebP VP8X flags %#02x %dx%d; %s", flags, c.W, c.H, note)
	return c
}

func nontrivial(c Case) bool {
	return c.Class != "intact" && c.Class != "none" || len(c.Expect.Profile) > 4096
}

func permutations(n int) [][]int {
	var out [][]int
	var rec func(cur []int, used int)
	rec = func(cur []int, used int) {
		if len(cur) == n {
			out = append(out, append([]int(nil), cur...))
			return
		}
		for i := 0; i < n; i++ {
			if used&(1<<uint(i)) == 0 {
				rec(append(cur, i), used|1<<uint(i))
			}
		}
	}
	rec(nil, 0)
	return out
}

var early []Case

func TestC06(t *testing.T) {
	if ev.Replaying() != nil {
		var c Case
		if err := ev.ReplayCase(&c); err != nil {
			t.Fatal(err)
		}
		if k, w := check(c); k != "" {
			ev.Fail(t, "icc", k, w, c)
		}
		fmt.Println("REPLAY case passed")
		return
	}
	ev.Rule("rapid: payloads of boundary-biased sizes (1,2,3,..,4095/4096/4097, 8191-8193, 65518-65521, 65519k±1, 131037-131039, up to 1 MiB quick / 8 MiB thorough; fixed PNG profiles of 8-16 MiB (thorough 48 MiB) that deflate at the format's limit of about 1030:1), compressible or incompressible or a valid ICC profile (half with random flags, intent, creator, ID; the raw bytes are read again after ICCProfile()/Description() on the same metadata value); PNG iCCP (name 1-79 bytes, store/1/6/9/huffman-only, anywhere before IDAT), JPEG APP2 (1-255 chunks of 1..65519 bytes, ascending/descending/random order, SOF before/between/after, fillers interleaved (plain segments, the real-world application-segment vocabulary - JFIF, Exif, XMP, MPF, FlashPix, Photoshop resources, Adobe - and APP2 segments with another or a near-miss identifier whose bytes 12/13 look like a chunk number and total); every permutation of <= 4 (quick) / 5 (thorough) chunks), WebP VP8X+ICCP (odd/even); no-profile variants; one damage class per case: PNG corrupt deflate (flips/truncation/adler), JPEG missing chunk / out-of-range number / inconsistent total, WebP flag without ICCP / truncated ICCP. A quarter of the files go through the auto-detecting loader, a quarter are read from a standard-library reader type positioned after 0..4096 unrelated bytes. Oracle: round trip; (nil,nil); for damage a reference model of the earliest legitimate stopping point (error mandatory before it, validity predicate after it); deflate damage judged by compress/zlib. non-trivial = distinct case with a damage class or a payload > 4096 bytes")
	ev.Assume("harness builders; compress/zlib decides whether a damaged stream still inflates")
	maxICC := ev.Pick(1<<20, 8<<20)
	// all permutations of small chunk counts
	maxPerm := ev.Pick(4, 5)
	ev.RapidChecks(1)
	for n := 1; n <= maxPerm; n++ {
		for pi, perm := range permutations(n) {
			perm := perm
			ev.RapidSeed(uint64(600 + n*200 + pi))
			rapid.Check(t, func(rt *rapid.T) {
				c := genJPEG(rt, 4000, perm)
				ev.Eval(1)
				ev.NT(ev.Hash("perm", perm, c.Data))
				if k, w := check(c); k != "" {
					ev.Fail(rt, "icc", k, w, c)
				}
			})
		}
	}
	ev.Class("jpeg-all-permutations", 1+2+6+24+int64(ev.Pick(0, 120)))
	// large profiles: 1 MiB +- , 2 MiB, 4 MiB (quick); 16 MiB and - PNG only, highly compressible - 256 MiB + 4099
	// (thorough).  "Whatever the profile's size."
	sizes := []int{1<<20 - 1, 1<<20 + 1, 3<<19 + 5, 2<<20 + 7, 4<<20 + 1}
	if ev.Thorough() {
		sizes = append(sizes, 16<<20+3)
	}
	mk := func(n int, compressible bool) []byte {
		b := make([]byte, n)
		x := uint32(n)*2654435761 + 1
		for i := range b {
			if compressible {
				b[i] = byte(i>>12) ^ byte(i%251)
			} else {
				x = x*1664525 + 1013904223
				b[i] = byte(x >> 24)
			}
		}
		return b
	}
	bigCase := func(format string, prof []byte, level int) Case {
		c := Case{Format: format, W: 7, H: 5, Bits: 8, Class: "intact", Expect: Expect{Kind: "profile", Profile: prof}}
		switch format {
		case "PNG":
			c.Data, _ = build.PNG{W: 7, H: 5, Depth: 8, ColorType: 2, Pre: []build.Chunk{{Type: "gAMA", Data: []byte{0, 0, 0xb1, 0x8f}}, build.ICCPChunk("big", prof, level)}, IDAT: []byte{1}}.Bytes()
		case "JPEG":
			var sz []int
			for n := len(prof); n > 65519; n -= 65519 {
				sz = append(sz, 65519)
			}
			segs := append(build.ICCSegs(prof, sz), build.Seg{Marker: 0xC0, Data: build.SOF(8, 5, 7, [][3]byte{{1, 0x11, 0}})})
			c.Data, _ = build.JPEG{Segs: segs, SOS: []byte{1, 1, 0, 0, 63, 0}, Entropy: []byte{1}}.Bytes()
		default:
			c.Data, _ = build.WebP{Chunks: []build.RIFFChunk{{FourCC: "VP8X", Data: build.VP8XHeader(0x20, 6, 4)}, {FourCC: "ICCP", Data: prof}, {FourCC: "VP8L", Data: build.VP8LHeader(6, 4, false)}}}.Bytes()
		}
		c.Desc = fmt.Sprintf("%s with a %d-byte profile (file %d bytes)", format, len(prof), len(c.Data))
		return c
	}
	for _, n := range sizes {
		for _, format := range []string{"PNG", "JPEG", "WebP"} {
			for _, compressible := range []bool{false, true} {
				if format == "JPEG" && n > 255*65519 {
					continue
				}
				if format != "PNG" && compressible {
					continue
				}
				c := bigCase(format, mk(n, compressible), 1)
				ev.Eval(1)
				ev.NT(ev.Hash("big", format, n, compressible))
				if k, w := check(c); k != "" {
					c.Data, c.Expect.Profile = nil, nil
					ev.Violation("icc", k, w, c)
				}
			}
		}
	}
	// PNG profiles that deflate at the format's limit (about 1030:1): megabytes of one repeated byte behind a small
	// header, or long runs of a few bytes, at the default and the best compression level
	for i, n := range []int{8 << 20, 16<<20 + 1, ev.Pick(12<<20+4099, 48<<20)} {
		for _, level := range []int{-1, 9} {
			prof := make([]byte, n)
			binary.BigEndian.PutUint32(prof, uint32(n))
			copy(prof[36:], "acsp")
			if i == 1 {
				for k := 128; k < n; k++ {
					prof[k] = byte(k >> 22) // runs of 4 MiB
				}
			}
			c := bigCase("PNG", prof, level)
			c.Desc += fmt.Sprintf(", zeros or 4 MiB runs behind a size field and a signature, zlib level %d, compressed %d:1", level, len(prof)/(len(c.Data)-100))
			ev.Eval(1)
			ev.NT(ev.Hash("limit-ratio", n, level))
			if k, w := check(c); k != "" {
				c.Data, c.Expect.Profile = nil, nil
				ev.Violation("icc", k, w, c)
			}
		}
	}
	ev.Class("png-profiles-at-the-deflate-ratio-limit", 6)
	// a profile among bulky neighbours: 1.3 MiB (thorough 20 MiB) of full-size APP1/COM segments before, between and
	// after the chunks of a small profile, frame header last - extended XMP, depth maps and thumbnails are that big
	for _, total := range []int{1300 << 10, ev.Pick(2<<20+77, 20<<20)} {
		prof := mk(3001, false)
		ics := build.ICCSegs(prof, []int{1000, 1000})
		var segs []build.Seg
		bulk := func(n int) {
			for n > 0 {
				k := 65533
				if k > n {
					k = n
				}
				segs = append(segs, build.Seg{Marker: []byte{0xE1, 0xFE, 0xED}[len(segs)%3], Data: make([]byte, k)})
				n -= k
			}
		}
		bulk(total / 3)
		segs = append(segs, ics[0])
		bulk(total / 3)
		segs = append(segs, ics[1:]...)
		bulk(total / 3)
		segs = append(segs, build.Seg{Marker: 0xC0, Data: build.SOF(8, 5, 7, [][3]byte{{1, 0x11, 0}})})
		c := Case{Format: "JPEG", W: 7, H: 5, Bits: 8, Class: "intact", Expect: Expect{Kind: "profile", Profile: prof}}
		c.Data, _ = build.JPEG{Segs: segs, SOS: []byte{1, 1, 0, 0, 63, 0}, Entropy: []byte{1}}.Bytes()
		c.Desc = fmt.Sprintf("JPEG with a 3001-byte profile in 3 chunks among %d bytes of other segments, frame header last", total)
		ev.Eval(1)
		ev.NT(ev.Hash("bulky", total))
		if k, w := check(c); k != "" {
			c.Data = nil
			ev.Violation("icc", k, w, c)
		}
	}
	// the 2^24 boundary of a chunk length (three length bytes are not four): WebP in every tier, where it costs little
	for _, n := range []int{1<<24 - 1, 1 << 24, 1<<24 + 4001} {
		c := bigCase("WebP", mk(n, false), 1)
		ev.Eval(1)
		ev.NT(ev.Hash("big", "WebP", n))
		if k, w := check(c); k != "" {
			c.Data, c.Expect.Profile = nil, nil
			ev.Violation("icc", k, w, c)
		}
	}
	if ev.Thorough() {
		prof := mk(1<<28+4099, true)
		c := bigCase("PNG", prof, 1)
		ev.Eval(1)
		ev.NT(ev.Hash("huge"))
		if k, w := check(c); k != "" {
			c.Data, c.Expect.Profile = nil, nil
			ev.Violation("icc", k, w, c)
		}
		prevICC, prevWant, prevCase = nil, nil, nil
	}
	ev.Class("large-profiles", int64(len(sizes)*4))
	n := ev.Pick(600, 10000)
	for fi, g := range []func(*rapid.T, int) Case{genPNG, func(rt *rapid.T, m int) Case { return genJPEG(rt, m, nil) }, genWebP} {
		ev.RapidChecks(n)
		ev.RapidSeed(uint64(60 + fi))
		g := g
		rapid.Check(t, func(rt *rapid.T) {
			c := g(rt, maxICC)
			if rapid.IntRange(0, 3).Draw(rt, "viaauto") == 0 {
				c.Loader = "auto"
			}
			if len(c.Data) < 300000 && rapid.IntRange(0, 3).Draw(rt, "viastd") == 0 {
				c.Std = rapid.SampledFrom(src.StdKinds).Draw(rt, "stdkind")
				c.Prefix = rapid.SampledFrom([]int{0, 1, 64, 4000, 4096}).Draw(rt, "prefix")
			}
			ev.Eval(1)
			if nontrivial(c) {
				ev.NT(ev.Hash(c.Data))
			}
			ev.Class(c.Format+"/"+c.Class+"/expect-"+c.Expect.Kind, 1)
			if len(c.Expect.Profile) > 4096 {
				ev.Class("profile>4096", 1)
			}
			if ev.SampleN() < 3*(fi+1) && c.Class != "intact" {
				ev.Sample(map[string]any{"desc": c.Desc, "class": c.Class, "file_bytes": len(c.Data), "expect": c.Expect.Kind})
			}
			if k, w := check(c); k != "" {
				if staleCase != nil {
					c, staleCase = *staleCase, nil
				}
				ev.Fail(rt, "icc", k, w, c)
			}
			if len(early) < 300 && len(c.Data) < 200000 {
				early = append(early, c)
			}
		})
	}
	// the first 300 files once more, after everything else has been loaded
	for _, c := range early {
		ev.Eval(1)
		if k, w := check(c); k != "" {
			ev.Violation("icc", k, "loaded again after many other files: "+w, c)
			break
		}
	}
	if ev.Violations() > 0 {
		t.Fail()
	}
}
