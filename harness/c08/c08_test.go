// C08 — extraction results do not depend on how the source reader segments its data.
package c08

import (
	"bufio"
	"bytes"
	"fmt"
	"io"
	"reflect"
	"strconv"
	"strings"
	"testing"

	"github.com/mandykoh/prism/meta/icc"
	"pgregory.net/rapid"

	"verif/internal/build"
	"verif/internal/ev"
	"verif/internal/gen"
	"verif/internal/ld"
	"verif/internal/mut"
	"verif/internal/seeds"
	"verif/internal/src"
)

func TestMain(m *testing.M) { ev.Main(m, "C08", "exploration") }

type Case struct {
	Desc        string `json:"desc"`
	Data        []byte `json:"data"`
	Target      string `json:"target"` // png jpeg webp auto icc
	Sizes       []int  `json:"sizes"`
	DataWithEOF bool   `json:"data_with_eof"`
	BufSize     int    `json:"buf_size,omitempty"`   // icc only
	Seekable    bool   `json:"seekable,omitempty"`   // the scheduled source also implements io.Seeker
	ZeroEvery   int    `json:"zero_every,omitempty"` // every n-th read returns (0, nil)
	// Wrap: the scheduled source reaches the loader through a standard wrapper, as callers' sources do:
	// "bufio:<n>" (a *bufio.Reader of that size), "limit" (io.LimitReader), "multi" (io.MultiReader of the first
	// 5 bytes and the rest), "tee" (io.TeeReader into a discarded buffer), "nop" (io.NopCloser)
	Wrap string `json:"wrap,omitempty"`
}

var wraps = []string{"bufio:16", "bufio:64", "bufio:100", "bufio:4096", "bufio:4097", "bufio:8192", "bufio:65536", "limit", "multi", "tee", "nop"}

func wrap(kind string, r io.Reader) io.Reader {
	switch {
	case strings.HasPrefix(kind, "bufio:"):
		n, _ := strconv.Atoi(kind[6:])
		return bufio.NewReaderSize(r, n)
	case kind == "limit":
		return io.LimitReader(r, 1<<40)
	case kind == "multi":
		head := make([]byte, 5)
		n, _ := io.ReadFull(r, head)
		return io.MultiReader(bytes.NewReader(head[:n]), r)
	case kind == "tee":
		return io.TeeReader(r, io.Discard)
	case kind == "nop":
		return io.NopCloser(r)
	}
	return r
}

type iccOutcome struct {
	OK      bool
	Header  icc.Header
	Desc    string
	DescErr bool
	Panic   bool
}

func readICC(r *bufio.Reader) (o iccOutcome) {
	defer func() {
		if recover() != nil {
			o.Panic = true
		}
	}()
	p, err := icc.NewProfileReader(r).ReadProfile()
	if err != nil || p == nil {
		return o
	}
	o.OK = true
	o.Header = p.Header
	d, derr := p.Description()
	o.Desc, o.DescErr = d, derr != nil
	return o
}

func check(c Case) (kind, what string, nt bool) {
	s := &src.Source{Data: c.Data, FaultAt: -1, Sizes: c.Sizes, DataWithEOF: c.DataWithEOF, ZeroEvery: c.ZeroEvery}
	if c.Target == "icc" {
		bs := c.BufSize
		if bs == 0 {
			bs = 4096
		}
		ref := readICC(bufio.NewReaderSize(bytes.NewReader(c.Data), 1<<20))
		got := readICC(bufio.NewReaderSize(s, bs))
		nt = s.MultiCall || s.ShortCalls > 0
		if ref.OK && got.OK && ref.Desc != got.Desc && !ref.DescErr && !got.DescErr {
			// a multi-localised description without exactly one eligible record is "some record": either run may
			// return any member of the candidate set, so only membership can be compared
			if set, mluc := build.DescCandidates(c.Data); mluc && member(set, ref.Desc) && member(set, got.Desc) {
				got.Desc = ref.Desc
			}
		}
		if !reflect.DeepEqual(ref, got) {
			return "icc/differs", fmt.Sprintf("ICC reader behind bufio(%d) over schedule %v: %+v; all-at-once: %+v (%s)", bs, c.Sizes, brief(got), brief(ref), c.Desc), nt
		}
		return "", "", nt
	}
	ref := ld.Run(c.Target, bytes.NewReader(c.Data))
	var got ld.Outcome
	if c.Wrap != "" {
		got = ld.Run(c.Target, wrap(c.Wrap, s))
	} else if c.Seekable {
		got = ld.Run(c.Target, src.Seekable{Source: s})
	} else {
		got = ld.Run(c.Target, s)
	}
	nt = s.MultiCall || s.ShortCalls > 0
	if !ld.Same(ref, got) {
		k := c.Target + "/differs"
		via := ""
		if c.Wrap != "" {
			via = " behind " + c.Wrap
		}
		return k, fmt.Sprintf("%s loader%s, schedule %v eof-with-data=%v: %s; all-at-once delivery: %s (%s)", c.Target, via, c.Sizes, c.DataWithEOF, got, ref, c.Desc) + zeroNote(c), nt
	}
	return "", "", nt
}

func brief(o iccOutcome) string {
	return fmt.Sprintf("{ok=%v size=%d desc=%q descErr=%v panic=%v}", o.OK, o.Header.ProfileSize, o.Desc, o.DescErr, o.Panic)
}

var fixed = [][]int{{1}, {2}, {3}, {7}, {8}, {4095}, {4096}, {4097}}

func TestC08(t *testing.T) {
	if ev.Replaying() != nil {
		var c Case
		if err := ev.ReplayCase(&c); err != nil {
			t.Fatal(err)
		}
		if k, w, _ := check(c); k != "" {
			ev.Fail(t, "segmentation", k, w, c)
		}
		fmt.Println("REPLAY case passed")
		return
	}
	ev.Rule("inputs: every repository image and profile, grammar-built seeds (incl. profiles > 4 KiB), hostile mini-files, rapid-generated valid files (ICC up to 70 KB, chunk headers straddling 4096*k), rapid structure-aware mutations and truncations of all of these, a quarter followed by trailing zeros, junk or another file. Schedules per input: fixed segment sizes 1,2,3,7,8,4095,4096,4097, a first read ending at each structure boundary followed by one piece or by a 4096/8192/65536-byte piece and crumbs, rapid size lists, final data together with EOF, every n-th read returning (0, nil); for the ICC reader bufio readers of size 16/64/4096/65536 in front of the scheduled source; for the loaders a quarter of the cases behind a standard wrapper (bufio.Reader of 16..65536 bytes, io.LimitReader, io.MultiReader, io.TeeReader, io.NopCloser). Oracle (metamorphic): outcome tuple == outcome under all-at-once delivery from bytes.Reader. non-trivial = distinct (input, schedule) whose source delivered the input in >= 2 calls or returned a short count")
	ev.Assume("error text is not compared, only success/error and values; a source returns (0, nil) only when the case says so (every n-th read, n >= 2, never twice in a row - what io.Reader calls 'nothing happened')")
	all := append(seeds.All(), seeds.Hostile()...)
	bad := map[string]bool{}
	run := func(c Case) {
		ev.Eval(1)
		k, w, nt := check(c)
		if nt {
			ev.NT(ev.Hash(c.Target, c.Sizes, c.DataWithEOF, c.BufSize, c.ZeroEvery, c.Data))
		}
		if k != "" && !bad[k] {
			bad[k] = true
			ev.Violation("segmentation", k, w, c)
		}
	}
	for _, sd := range all {
		scheds := fixed
		if len(sd.Data) > 100000 && !ev.Thorough() {
			scheds = [][]int{{1}, {7}, {4095}, {4097}}
		}
		for si, sc := range scheds {
			if sd.Kind == "ICC" {
				for _, bs := range []int{16, 64, 4096, 65536} {
					run(Case{Desc: sd.Name, Data: sd.Data, Target: "icc", Sizes: sc, BufSize: bs, DataWithEOF: si%2 == 0})
				}
				continue
			}
			for _, target := range []string{ld.ForFormat(sd.Kind), "auto"} {
				run(Case{Desc: sd.Name, Data: sd.Data, Target: target, Sizes: sc, DataWithEOF: si%2 == 1})
				run(Case{Desc: sd.Name, Data: sd.Data, Target: target, Sizes: sc, DataWithEOF: si%2 == 0, Seekable: true})
				run(Case{Desc: sd.Name, Data: sd.Data, Target: target, Sizes: sc, DataWithEOF: si%2 == 1, ZeroEvery: 2 + si%3})
				run(Case{Desc: sd.Name + " + 1 trailing byte", Data: append(append([]byte(nil), sd.Data...), 0x55), Target: target, Sizes: sc, DataWithEOF: si%2 == 0})
				run(Case{Desc: sd.Name, Data: sd.Data, Target: target, Sizes: sc, DataWithEOF: si%2 == 1, Wrap: wraps[(si+len(sd.Data))%len(wraps)]})
			}
		}
	}
	ev.Class("seed-x-fixed-schedules", int64(len(all)*len(fixed)*2))
	// every structure boundary of every seed as the end of the first read (the loader's buffer is empty exactly
	// there), followed by one big piece, or by a buffer-sized piece and crumbs
	{
		var nb int64
		for _, sd := range all {
			if len(sd.Data) > 100000 || sd.Kind == "ICC" {
				continue
			}
			for _, e := range mut.Ends(sd.Map, len(sd.Data)) {
				if e <= 0 || e >= len(sd.Data) {
					continue
				}
				for ti, tail := range [][]int{{1 << 30}, {4096, 1}, {8192, 7, 1}, {65536, 3}} {
					sc := []int{e}
					for k := 0; k < 40; k++ {
						sc = append(sc, tail...)
					}
					for _, target := range []string{ld.ForFormat(sd.Kind), "auto"} {
						run(Case{Desc: sd.Name, Data: sd.Data, Target: target, Sizes: sc, DataWithEOF: ti%2 == 1})
						nb++
					}
				}
			}
		}
		ev.Class("first-read-ends-at-boundary", nb)
	}
	// large inputs: the last needed structure ends shortly after 1 MiB / 8 MiB (16, 32 MiB in thorough); anything
	// that counts bytes per Read call (limits, progress, buffers sized from totals) depends on the segmentation
	ths := []int{1 << 20, 8 << 20}
	if ev.Thorough() {
		ths = append(ths, 16<<20, 32<<20)
	}
	for _, th := range ths {
		for _, format := range []string{"PNG", "JPEG", "WebP"} {
			f := gen.LargeHeader(format, th+300)
			for _, sc := range [][]int{{1000}, {4097}, {65536}, {1 << 30}, {th - 100, 7}} {
				for _, target := range []string{ld.ForFormat(format), "auto"} {
					c := Case{Desc: f.Desc, Data: f.Data, Target: target, Sizes: sc, DataWithEOF: sc[0]%2 == 0}
					ev.Eval(1)
					k, w, nt := check(c)
					if nt {
						ev.NT(ev.Hash("large", format, th, sc, target))
					}
					if k != "" && !bad[k] {
						bad[k] = true
						if len(c.Data) > 9<<20 {
							c.Data = nil
						}
						ev.Violation("segmentation", k, w, c)
					}
				}
			}
		}
	}
	ev.Class("large-inputs", int64(len(ths)*3*5*2))
	ev.Sample(map[string]any{"input": all[2].Name, "bytes": len(all[2].Data), "target": "png", "schedule": []int{1}})

	otherEnds := mut.Ends(all[4].Map, len(all[4].Data))
	ev.RapidChecks(ev.Pick(4000, 150000))
	ev.RapidSeed(8)
	rapid.Check(t, func(rt *rapid.T) {
		var c Case
		var data []byte
		var m *build.Map
		kind := ""
		switch rapid.IntRange(0, 3).Draw(rt, "source") {
		case 0, 1:
			f := gen.Any(rt, gen.Opts{MaxICC: 70000})
			data, m, kind, c.Desc = f.Data, f.Map, f.Format, f.Desc
		case 2:
			sd := all[rapid.IntRange(0, len(all)-1).Draw(rt, "seed")]
			data, m, kind, c.Desc = sd.Data, sd.Map, sd.Kind, sd.Name
			if len(data) > 70000 {
				data = data[:70000]
			}
		default:
			// generated ICC profile
			desc := build.TextDesc("generated profile")
			if rapid.Bool().Draw(rt, "v4") {
				desc = build.Mluc([]build.MlucRec{{Lang: [2]byte{'f', 'r'}, Country: [2]byte{'F', 'R'}, Text: "Écran"}, {Lang: [2]byte{'e', 'n'}, Country: [2]byte{'G', 'B'}, Text: "Screen"}}, []int{1, 0}, nil, rapid.SampledFrom([]int{0, 2}).Draw(rt, "gap"))
			}
			data = build.SimpleProfile(desc, gen.Biased(rt, "extra", 0, 70000, 8, 3900, 3970, 4096, 8192, 65536))
			m, kind, c.Desc = build.ParseICC(data, 0), "ICC", "generated ICC profile"
		}
		if rapid.IntRange(0, 2).Draw(rt, "mutate") == 0 {
			ops := mut.Gen(rt, data, m, len(all[4].Data), otherEnds, 3)
			data = mut.Apply(data, m, ops, all[4].Data)
			c.Desc += fmt.Sprintf(" mutated %v", ops)
		}
		// a quarter of the inputs are followed by something else in the stream: junk, zeros, or another file
		switch rapid.IntRange(0, 11).Draw(rt, "trailing") {
		case 0:
			data = append(append([]byte(nil), data...), bytes.Repeat([]byte{0}, rapid.SampledFrom([]int{1, 2, 100, 5000}).Draw(rt, "zeros"))...)
			c.Desc += " + trailing zeros"
		case 1:
			data = append(append([]byte(nil), data...), gen.Payload(rt, "junk", rapid.SampledFrom([]int{1, 3, 4096, 9000}).Draw(rt, "junklen"))...)
			c.Desc += " + trailing junk"
		case 2:
			data = append(append([]byte(nil), data...), all[4].Data...)
			c.Desc += " + another file"
		}
		c.Data = data
		if kind == "ICC" {
			c.Target = "icc"
			c.BufSize = rapid.SampledFrom([]int{16, 64, 4096, 65536}).Draw(rt, "bufsize")
		} else {
			c.Target = rapid.SampledFrom([]string{ld.ForFormat(kind), "auto", "png", "jpeg", "webp"}).Draw(rt, "target")
		}
		switch rapid.IntRange(0, 3).Draw(rt, "schedkind") {
		case 0:
			c.Sizes = rapid.SampledFrom(fixed).Draw(rt, "fixedsize")
		case 1:
			c.Sizes = rapid.SliceOfN(rapid.IntRange(1, 9000), 1, 8).Draw(rt, "sizes")
		default:
			// reads that end at (or a few bytes around) a structure boundary of the file: one or two such
			// splits, then the rest in one piece or in 4096-byte pieces
			es := mut.Ends(m, len(data))
			pos := 0
			for k := rapid.IntRange(1, 2).Draw(rt, "nsplits"); k > 0; k-- {
				e := rapid.SampledFrom(es).Draw(rt, "boundary") + rapid.IntRange(-2, 4).Draw(rt, "delta")
				if e > pos {
					c.Sizes = append(c.Sizes, e-pos)
					pos = e
				}
			}
			// ... then a repeating pattern of 1-3 sizes (one big piece; buffer-sized pieces; a buffer-sized piece
			// followed by crumbs), so that read sizes change during the stream
			tail := rapid.SliceOfN(rapid.SampledFrom([]int{1 << 30, 4096, 65536, 1, 7, 100, 4095, 4097, 8192}), 1, 3).Draw(rt, "rest")
			// the size list is cycled by the source: pad so that the split sizes are used once only
			for k := 0; k < 64; k++ {
				c.Sizes = append(c.Sizes, tail...)
			}
		}
		c.DataWithEOF = rapid.Bool().Draw(rt, "dataeof")
		c.Seekable = rapid.IntRange(0, 2).Draw(rt, "seekable") == 0
		if c.Target != "icc" && rapid.IntRange(0, 3).Draw(rt, "wrapped") == 0 {
			c.Wrap = rapid.SampledFrom(wraps).Draw(rt, "wrap")
		}
		if rapid.IntRange(0, 3).Draw(rt, "zeroreads") == 0 {
			c.ZeroEvery = rapid.SampledFrom([]int{2, 3, 5, 10}).Draw(rt, "zeroevery")
		}
		ev.Eval(1)
		k, w, nt := check(c)
		if nt {
			ev.NT(ev.Hash(c.Target, c.Sizes, c.DataWithEOF, c.BufSize, c.ZeroEvery, c.Data))
		}
		ev.Class("rapid-"+c.Target, 1)
		if ev.SampleN() < 5 {
			ev.Sample(map[string]any{"desc": c.Desc, "bytes": len(c.Data), "target": c.Target, "sizes": c.Sizes, "data_with_eof": c.DataWithEOF})
		}
		if k != "" {
			ev.Fail(rt, "segmentation", k, w, c)
		}
	})
	if ev.Violations() > 0 {
		t.Fail()
	}
}

func zeroNote(c Case) string {
	if c.ZeroEvery > 1 {
		return fmt.Sprintf(" [every %d-th read returned (0, nil)]", c.ZeroEvery)
	}
	return ""
}

func member(set []string, s string) bool {
	for _, x := range set {
		if x == s {
			return true
		}
	}
	return false
}
