// C01 — decode tables equal the published EOTFs (exhaustive in both tiers).
package c01

import (
	"fmt"
	"image/color"
	"math"
	"os"
	"runtime"
	"strconv"
	"strings"
	"testing"

	"verif/internal/ev"
	"verif/internal/ref"
	"verif/internal/sp"
)

func TestMain(m *testing.M) { ev.Main(m, "C01", "exploration") }

// encode-side probes: an encode may be the very first 16-bit operation in a process; decoding afterwards must work
func init() {
	for i := range sp.Spaces {
		a := &sp.Spaces[i]
		name := a.Name
		ev.RegisterProbe(name+".encode-first", func() string {
			if n, err := strconv.Atoi(os.Getenv("VERIF_PROBE_PROCS")); err == nil && n > 0 {
				runtime.GOMAXPROCS(n)
			}
			if a.To16 != nil {
				if a.To16(1) != 65535 || a.To8(1) != 255 {
					return "To16Bit(1)/To8Bit(1) is not the maximum code"
				}
			}
			if o := a.EncodeColor(color.RGBA64{R: 65535, G: 0, B: 65535, A: 65535}); o.R != 65535 || o.G != 0 || o.A != 65535 {
				return fmt.Sprintf("EncodeColor(opaque magenta) = %v", o)
			}
			return ""
		})
	}
}

// soak probes: tens of millions of decodes of 8-bit-derived values only (what a batch of 8-bit images produces), as
// the first thing a process does; the ordinary probes that follow then meet whatever state that built up
func init() {
	for i := range sp.Spaces {
		a := &sp.Spaces[i]
		ev.RegisterProbe("soak:"+a.Name+" 8-bit-derived decodes", func() string {
			n := 1<<24 + 4096
			if a.From16 != nil {
				var acc float32
				for k := 0; k < n; k++ {
					acc += a.From16(uint16(257 * (k & 255)))
				}
				_ = acc
				for k := 0; k < 1<<20; k++ {
					a.From8(uint8(k))
				}
				return ""
			}
			for k := 0; k < n/8; k++ { // the colour-level entry point is slower; three channels per call
				v := uint8(k)
				a.FromEncoded(color.NRGBA{R: v, G: v + 85, B: v + 170, A: 255})
			}
			return ""
		})
	}
}

// order probes (see ev.ProbeOrders): every decode entry point of every space, in generated orders, each order in
// a fresh process, so that the lazily built tables are first touched by a different function each time
func init() {
	for i := range sp.Spaces {
		name := sp.Spaces[i].Name
		for _, e := range append(append([]string(nil), entries8...), entries16...) {
			e := e
			bits := 16
			for _, x := range entries8 {
				if x == e {
					bits = 8
				}
			}
			if (e == "From8Bit" || e == "From16Bit") && sp.Spaces[i].From8 == nil {
				continue
			}
			ev.RegisterProbe(name+"."+e, func() string {
				if n, err := strconv.Atoi(os.Getenv("VERIF_PROBE_PROCS")); err == nil && n > 0 {
					runtime.GOMAXPROCS(n)
				}
				for _, code := range []int{0, 1, 7, 85, 200, 255, 12345, 32768, 65530, 65531, 65532, 65533, 65534, 65535} {
					if code >= 1<<bits {
						continue
					}
					if k, w := check(Case{Space: name, Entry: e, Bits: bits, Code: code}); k != "" {
						return w
					}
				}
				return ""
			})
		}
	}
}

const tol = 3e-7

// Case is one (space, entry point, code) evaluation.
type Case struct {
	Space string `json:"space"`
	Entry string `json:"entry"`
	Bits  int    `json:"bits"`
	Code  int    `json:"code"`
	// Interleaved: the failure was seen when the same code was decoded in every space in turn; the replay
	// decodes it in the other spaces first
	Interleaved bool `json:"interleaved,omitempty"`
	// Spread > 0: the three channels are not a third of the range apart but next to each other - pattern number
	// Spread-1 of nearPatterns (almost-neutral colours: greys with one channel a code or two off)
	Spread int `json:"spread,omitempty"`
}

// nearPatterns: channel offsets (G, B relative to R) of almost-neutral colours
var nearPatterns = [][2]int{{0, 0}, {1, 0}, {0, 1}, {1, 1}, {-1, 0}, {0, -1}, {1, -1}, {2, 1}, {-1, -1}, {0, 2}, {3, 0}}

func space(name string) *sp.API {
	for i := range sp.Spaces {
		if sp.Spaces[i].Name == name {
			return &sp.Spaces[i]
		}
	}
	return nil
}

// decode3 evaluates the entry point on a colour whose three channels carry
// codes (v, v+85, v+170 mod N) and returns the three linear values (for the
// per-component entry points only the first is meaningful, the others repeat).
func codes(c Case) [3]int {
	n := 1 << c.Bits
	if c.Spread > 0 {
		p := nearPatterns[(c.Spread-1)%len(nearPatterns)]
		return [3]int{c.Code, ((c.Code+p[0])%n + n) % n, ((c.Code+p[1])%n + n) % n}
	}
	return [3]int{c.Code, (c.Code + n/3) % n, (c.Code + 2*(n/3)) % n}
}

func eval(a *sp.API, c Case) (vals [3]float64, lin16 bool, ok bool) {
	k := codes(c)
	switch c.Entry {
	case "From8Bit":
		if a.From8 == nil || c.Bits != 8 {
			return vals, false, false
		}
		for i := range k {
			vals[i] = float64(a.From8(uint8(k[i])))
		}
	case "From16Bit":
		if a.From16 == nil || c.Bits != 16 {
			return vals, false, false
		}
		for i := range k {
			vals[i] = float64(a.From16(uint16(k[i])))
		}
	case "ColorFromNRGBA":
		if c.Bits != 8 {
			return vals, false, false
		}
		rgb, al := a.FromNRGBA(color.NRGBA{R: uint8(k[0]), G: uint8(k[1]), B: uint8(k[2]), A: 255})
		if al != 1 {
			return [3]float64{math.NaN(), math.NaN(), math.NaN()}, false, true
		}
		vals = [3]float64{float64(rgb.R), float64(rgb.G), float64(rgb.B)}
	case "ColorFromRGBA":
		if c.Bits != 8 {
			return vals, false, false
		}
		rgb, al := a.FromRGBA(color.RGBA{R: uint8(k[0]), G: uint8(k[1]), B: uint8(k[2]), A: 255})
		if al != 1 {
			return [3]float64{math.NaN(), math.NaN(), math.NaN()}, false, true
		}
		vals = [3]float64{float64(rgb.R), float64(rgb.G), float64(rgb.B)}
	default:
		if !strings.HasPrefix(c.Entry, "ColorFromEncodedColor/") && !strings.HasPrefix(c.Entry, "LineariseColor/") {
			return vals, false, false
		}
		var col color.Color
		is16 := strings.HasSuffix(c.Entry, "64")
		switch {
		case strings.HasSuffix(c.Entry, "/NRGBA"):
			col = color.NRGBA{R: uint8(k[0]), G: uint8(k[1]), B: uint8(k[2]), A: 255}
		case strings.HasSuffix(c.Entry, "/RGBA"):
			col = color.RGBA{R: uint8(k[0]), G: uint8(k[1]), B: uint8(k[2]), A: 255}
		case strings.HasSuffix(c.Entry, "/NRGBA64"):
			col = color.NRGBA64{R: uint16(k[0]), G: uint16(k[1]), B: uint16(k[2]), A: 65535}
		case strings.HasSuffix(c.Entry, "/RGBA64"):
			col = color.RGBA64{R: uint16(k[0]), G: uint16(k[1]), B: uint16(k[2]), A: 65535}
		case strings.HasSuffix(c.Entry, "/Gray16-64"):
			k = [3]int{k[0], k[0], k[0]}
			col = color.Gray16{Y: uint16(k[0])}
		case strings.HasSuffix(c.Entry, "/Gray"):
			k = [3]int{k[0], k[0], k[0]}
			col = color.Gray{Y: uint8(k[0])}
		case strings.HasSuffix(c.Entry, "/opaque-custom-64"):
			col = customColor{uint32(k[0]), uint32(k[1]), uint32(k[2])}
		default:
			col, _ = derived(c.Entry, k)
		}
		if is16 != (c.Bits == 16) {
			return vals, false, false
		}
		if c.Entry[0] == 'L' {
			o := a.LineariseColor(col)
			if o.A != 65535 {
				return [3]float64{math.NaN(), math.NaN(), math.NaN()}, true, true
			}
			return [3]float64{float64(o.R), float64(o.G), float64(o.B)}, true, true
		}
		rgb, al := a.FromEncoded(col)
		if al != 1 {
			return [3]float64{math.NaN(), math.NaN(), math.NaN()}, false, true
		}
		vals = [3]float64{float64(rgb.R), float64(rgb.G), float64(rgb.B)}
	}
	return vals, false, true
}

// check returns "" or (kind, message).
func check(c Case) (kind, what string) {
	a := space(c.Space)
	if a == nil {
		return "harness", "unknown space"
	}
	var vals [3]float64
	var lin16, ok bool
	if p, msg := ev.Guard(func() { vals, lin16, ok = eval(a, c) }); p {
		return "panic", msg
	}
	if !ok {
		return "", ""
	}
	max := float64(int(1)<<c.Bits - 1)
	k := codes(c)
	if strings.Contains(c.Entry, "/Gray") {
		k = [3]int{k[0], k[0], k[0]}
	}
	if _, dk := derived(c.Entry, k); dk != nil {
		k = *dk
	}
	for i := 0; i < 3; i++ {
		want := ref.EOTF(a.Ref, float64(k[i])/max)
		got := vals[i]
		if lin16 {
			lim := 0.5 + 65535*tol + 0.01
			if math.IsNaN(got) || math.Abs(got-65535*want) > lim {
				return "value", fmt.Sprintf("%s %s code %d (channel %d): linear 16-bit %v, reference 65535*%.9g = %.4f (limit %.3f)", c.Space, c.Entry, k[i], i, got, want, 65535*want, lim)
			}
			continue
		}
		if math.IsNaN(got) || math.Abs(got-want) > tol {
			return "value", fmt.Sprintf("%s %s code %d/%d (channel %d): got %.9g, published EOTF %.9g, |diff| %.3g > %g", c.Space, c.Entry, k[i], int(max), i, got, want, math.Abs(got-want), tol)
		}
		if k[i] == 0 && got != 0 {
			return "zero", fmt.Sprintf("%s %s code 0 decodes to %g, not exactly 0", c.Space, c.Entry, got)
		}
		if k[i] == int(max) && got != 1 {
			return "one", fmt.Sprintf("%s %s max code decodes to %.9g, not exactly 1", c.Space, c.Entry, got)
		}
	}
	return "", ""
}

var entries8 = []string{"From8Bit", "ColorFromNRGBA", "ColorFromRGBA", "ColorFromEncodedColor/NRGBA", "ColorFromEncodedColor/RGBA", "LineariseColor/NRGBA", "LineariseColor/RGBA", "ColorFromEncodedColor/Gray", "LineariseColor/Gray"}
var entries16 = []string{"From16Bit", "ColorFromEncodedColor/NRGBA64", "ColorFromEncodedColor/RGBA64", "LineariseColor/NRGBA64", "LineariseColor/RGBA64", "ColorFromEncodedColor/Gray16-64", "LineariseColor/Gray16-64", "ColorFromEncodedColor/opaque-custom-64", "LineariseColor/opaque-custom-64", "ColorFromEncodedColor/YCbCr-64", "LineariseColor/YCbCr-64", "ColorFromEncodedColor/CMYK-64", "LineariseColor/CMYK-64", "ColorFromEncodedColor/paletted-64"}

// derived builds the opaque colours whose 16-bit components are not the drawn codes themselves but follow from
// them through the standard library's own conversion (JPEG and CMYK pixels): the codes the decode must honour are
// whatever the colour's RGBA method reports.
func derived(entry string, k [3]int) (color.Color, *[3]int) {
	var col color.Color
	switch {
	case strings.HasSuffix(entry, "/YCbCr-64"):
		col = color.YCbCr{Y: uint8(k[0] >> 8), Cb: uint8(k[1]), Cr: uint8(k[2]>>8 ^ k[2])}
	case strings.HasSuffix(entry, "/CMYK-64"):
		col = color.CMYK{C: uint8(k[0] >> 8), M: uint8(k[1]), Y: uint8(k[2] >> 8), K: uint8(k[0] ^ k[2])}
	case strings.HasSuffix(entry, "/paletted-64"):
		col = color.Palette{color.NRGBA64{R: uint16(k[2]), G: uint16(k[0]), B: uint16(k[1]), A: 65535}}[0]
	default:
		return nil, nil
	}
	r, g, b, _ := col.RGBA()
	return col, &[3]int{int(r), int(g), int(b)}
}

// customColor is an opaque colour of a type the library cannot know
type customColor struct{ r, g, b uint32 }

func (c customColor) RGBA() (r, g, b, a uint32) { return c.r, c.g, c.b, 0xFFFF }

func TestC01(t *testing.T) {
	if ev.Replaying() != nil {
		if ev.ReplayOrder(t) {
			return
		}
		var c Case
		if err := ev.ReplayCase(&c); err != nil {
			t.Fatal(err)
		}
		ev.Eval(1)
		if c.Entry == "monotone" || c.Entry == "8eq16" {
			relational(t, space(c.Space))
			return
		}
		if c.Interleaved {
			for i := range sp.Spaces {
				if o := sp.Spaces[i]; o.Name != c.Space && !((c.Entry == "From8Bit" || c.Entry == "From16Bit") && o.From8 == nil) {
					check(Case{Space: o.Name, Entry: c.Entry, Bits: c.Bits, Code: c.Code})
					if kind, what := check(c); kind != "" {
						ev.Fail(t, "decode", c.Space+"/"+c.Entry+"/interleaved-"+kind, "after "+o.Name+": "+what, c)
						return
					}
				}
			}
		}
		if kind, what := check(c); kind != "" {
			ev.Fail(t, "decode", c.Space+"/"+c.Entry+"/"+kind, what, c)
		}
		fmt.Println("REPLAY case passed:", c)
		return
	}
	ev.Rule("exhaustive: every (space, entry point, code) for all 256 8-bit and 65,536 16-bit codes; colour constructors carry three different codes per call (v, v+N/3, v+2N/3); every case is distinct and counted as non-trivial; relational checks (strict monotonicity, From8Bit(v)==From16Bit(257v)) run over the complete tables every code once more with the other two channels equal to it or a code or two away (almost-neutral colours) through every whole-colour entry point. ")
	ev.Set("exhaustive", true)
	ev.Set("tolerance_abs", tol)
	ev.Assume("the published EOTF constants transcribed in internal/ref (IEC 61966-2-1, Adobe RGB (1998) gamma 563/256, ROMM RGB Et=1/512) are correct")

	for _, procs := range []string{"", "3", "5", "6", "7", "12"} {
		os.Setenv("VERIF_PROBE_PROCS", procs)
		ev.ProbeOrders(ev.Pick(2, 25))
	}
	os.Unsetenv("VERIF_PROBE_PROCS")
	// the first 16-bit call in the process takes the initialise-and-return path:
	// make it at a seed-chosen code, per space, and check its value
	for i := range sp.Spaces {
		a := &sp.Spaces[i]
		code := int((ev.Seed()*2654435761 + uint64(i)*40503) % 65536)
		for _, e := range []string{"From16Bit", "ColorFromEncodedColor/RGBA64"} {
			c := Case{Space: a.Name, Entry: e, Bits: 16, Code: code}
			if kind, what := check(c); kind != "" {
				ev.Violation("decode", c.Space+"/"+c.Entry+"/"+kind, "first call in process: "+what, c)
			}
		}
	}

	for i := range sp.Spaces {
		a := &sp.Spaces[i]
		for _, bits := range []int{8, 16} {
			es := entries8
			if bits == 16 {
				es = entries16
			}
			for _, e := range es {
				if (e == "From8Bit" || e == "From16Bit") && a.From8 == nil {
					continue
				}
				bad := false
				n := 1 << bits
				for code := 0; code < n; code++ {
					c := Case{Space: a.Name, Entry: e, Bits: bits, Code: code}
					ev.Eval(1)
					ev.NTAdd(1)
					if bad {
						continue
					}
					if kind, what := check(c); kind != "" {
						ev.Violation("decode", c.Space+"/"+c.Entry+"/"+kind, what, c)
						bad = true // first (lowest) failing code is the minimal reproduction
					}
				}
				ev.Class(a.Name+"/"+e, int64(n))
			}
		}
		relational(t, a)
	}
	// almost-neutral colours: every code with the other two channels equal to it or a code or two away (the pattern
	// changes from code to code), through every entry point that takes a whole colour
	for i := range sp.Spaces {
		a := &sp.Spaces[i]
		for _, bits := range []int{8, 16} {
			es := entries8
			if bits == 16 {
				es = entries16
			}
			for _, e := range es {
				if e == "From8Bit" || e == "From16Bit" || strings.Contains(e, "/Gray") {
					continue
				}
				for code := 0; code < 1<<bits; code++ {
					c := Case{Space: a.Name, Entry: e, Bits: bits, Code: code, Spread: 1 + (code+i)%len(nearPatterns)}
					ev.Eval(1)
					if kind, what := check(c); kind != "" {
						ev.Violation("decode", c.Space+"/"+c.Entry+"/near-neutral-"+kind, "almost-neutral colour: "+what, c)
						break
					}
				}
			}
		}
	}
	ev.Class("almost-neutral-colours", int64(len(sp.Spaces)*(len(entries8)+len(entries16)-6)))
	// second pass: all tables of all spaces have now been built and used - decoding must not depend on which
	// other space was used earlier in the process
	for i := range sp.Spaces {
		a := &sp.Spaces[i]
		for _, bits := range []int{8, 16} {
			es := entries8
			if bits == 16 {
				es = entries16
			}
			for _, e := range es[:2] {
				if (e == "From8Bit" || e == "From16Bit") && a.From8 == nil {
					continue
				}
				for code := 0; code < 1<<bits; code++ {
					c := Case{Space: a.Name, Entry: e, Bits: bits, Code: code}
					ev.Eval(1)
					if kind, what := check(c); kind != "" {
						ev.Violation("decode", c.Space+"/"+c.Entry+"/second-pass-"+kind, "after every space's tables were used: "+what, c)
						break
					}
				}
			}
		}
	}
	// third pass: the SAME code through every space and entry point back to back (comparing candidate profiles
	// for one pixel): what one space remembers about a colour must not leak into the next
	{
		var ni int64
		bad := false
		for _, bits := range []int{8, 16} {
			es := entries8
			if bits == 16 {
				es = entries16
			}
			step := 1
			if bits == 16 && !ev.Thorough() {
				step = 3
			}
			for code := 0; code < 1<<bits && !bad; code += step {
				for _, e := range es {
					for i := range sp.Spaces {
						a := &sp.Spaces[(i+code)%len(sp.Spaces)]
						if (e == "From8Bit" || e == "From16Bit") && a.From8 == nil {
							continue
						}
						c := Case{Space: a.Name, Entry: e, Bits: bits, Code: code, Interleaved: true}
						ni++
						if kind, what := check(c); kind != "" {
							ev.Violation("decode", c.Space+"/"+c.Entry+"/interleaved-"+kind, "the same code decoded in every space in turn: "+what, c)
							bad = true
						}
					}
				}
			}
		}
		ev.Eval(ni)
		ev.Class("interleaved-spaces", ni)
	}
	ev.Sample(map[string]any{"space": "srgb", "entry": "From16Bit", "code": 12345, "got": sp.Spaces[0].From16(12345), "published_eotf": ref.EOTF(ref.SRGB, 12345.0/65535)})
	ev.Sample(map[string]any{"space": "adobergb", "entry": "From8Bit", "code": 1, "got": sp.Spaces[1].From8(1), "published_eotf": ref.EOTF(ref.AdobeRGB, 1.0/255)})
	ev.Sample(map[string]any{"space": "prophotorgb", "entry": "From16Bit", "code": 2047, "got": sp.Spaces[2].From16(2047), "published_eotf": ref.EOTF(ref.ProPhoto, 2047.0/65535)})
	r, _ := sp.Spaces[3].FromEncoded(color.RGBA64{R: 40000, G: 500, B: 65535, A: 65535})
	ev.Sample(map[string]any{"space": "displayp3", "entry": "ColorFromEncodedColor/RGBA64", "codes": []int{40000, 500, 65535}, "got": []float32{r.R, r.G, r.B}})
	if ev.Violations() > 0 {
		t.Fail()
	}
}

// relational checks over whole tables: strictly increasing, 8-bit == 16-bit at 257*v.
func relational(t *testing.T, a *sp.API) {
	dec16 := func(v int) float32 {
		if a.From16 != nil {
			return a.From16(uint16(v))
		}
		r, _ := a.FromEncoded(color.RGBA64{R: uint16(v), G: 0, B: 0, A: 65535})
		return r.R
	}
	dec8 := func(v int) float32 {
		if a.From8 != nil {
			return a.From8(uint8(v))
		}
		r, _ := a.FromNRGBA(color.NRGBA{R: uint8(v), A: 255})
		return r.R
	}
	for v := 1; v < 65536; v++ {
		ev.Eval(1)
		if !(dec16(v) > dec16(v-1)) {
			ev.Violation("decode", a.Name+"/monotone16", fmt.Sprintf("%s 16-bit decode not strictly increasing: f(%d)=%.9g, f(%d)=%.9g", a.Name, v-1, dec16(v-1), v, dec16(v)), Case{Space: a.Name, Entry: "monotone", Bits: 16, Code: v})
			break
		}
	}
	for v := 0; v < 256; v++ {
		ev.Eval(1)
		if v > 0 && !(dec8(v) > dec8(v-1)) {
			ev.Violation("decode", a.Name+"/monotone8", fmt.Sprintf("%s 8-bit decode not strictly increasing at %d", a.Name, v), Case{Space: a.Name, Entry: "monotone", Bits: 8, Code: v})
			break
		}
		if math.Float32bits(dec8(v)) != math.Float32bits(dec16(257*v)) {
			ev.Violation("decode", a.Name+"/8eq16", fmt.Sprintf("%s: 8-bit decode of %d = %.9g but 16-bit decode of %d = %.9g", a.Name, v, dec8(v), 257*v, dec16(257*v)), Case{Space: a.Name, Entry: "8eq16", Bits: 8, Code: v})
			break
		}
	}
}
