#!/bin/bash
# Re-runs every stored breaking change (seeded/*/patch.diff and mutants/reverts/*.diff) against the check(s)
# recorded as catching it and prints one line per change.  Usage: tools/sensitivity.sh [name-glob]
cd "$(dirname "$0")/.." || exit 2
pat=${1:-*}
fail=0
for d in seeded/$pat/; do
  [ -f "$d/meta.json" ] || continue
  name=$(basename "$d")
  checks=$(python3 -c "import json;m=json.load(open('$d/meta.json'));print(' '.join(x for x in ' '.join(m.get('caught_by') or [m['property']]).split() if len(x)==3 and x[0]=='C'))")
  out=$(mutants/run.sh "$d/patch.diff" $checks 2>&1); rc=$?
  echo "$name [$checks] -> $(echo "$out" | grep -o 'exit=[0-9]*' | tr '\n' ' ')"
  [ $rc -eq 0 ] || fail=1
done
exit $fail
