#!/usr/bin/env python3
"""tools/seedeval.py <name> <srcdir> <property> [extra check ids...]
Confirms an independently written breaking change (patch + demo) in a scratch worktree, runs /verif's
checks against it (applied to /repo, undone straight afterwards) and files it under /verif/seeded/<name>/."""
import glob, json, os, shutil, subprocess, sys, time
ENV = dict(os.environ, GOFLAGS="-mod=mod", GOPROXY="off", GOSUMDB="off", GOTOOLCHAIN="local")

def sh(cmd, cwd, timeout=1800):
    p = subprocess.run(cmd, cwd=cwd, env=ENV, shell=True, stdout=subprocess.PIPE, stderr=subprocess.STDOUT, text=True, timeout=timeout)
    return p.returncode, p.stdout

def main():
    name, src, prop = sys.argv[1], sys.argv[2], sys.argv[3]
    checks = [prop] + sys.argv[4:]
    patch = os.path.join(src, "seed_patch.diff")
    demos = [f for f in subprocess.run("git ls-files --others --exclude-standard", cwd=src, shell=True, stdout=subprocess.PIPE, text=True).stdout.split()
             if os.path.basename(f).startswith("seed_demo")]
    meta = {"name": name, "property": prop, "source": "sub-agent given only the property text and a scratch worktree", "ran": []}
    if not os.path.exists(patch) or not demos:
        print("missing patch or demo in", src, demos); return 2
    wt = "/tmp/seedchk-" + name
    subprocess.run("git -C /repo worktree remove --force %s 2>/dev/null; git -C /repo worktree add -q --detach %s HEAD" % (wt, wt), shell=True)
    try:
        rc, out = sh("git apply --whitespace=nowarn %s" % patch, wt)
        if rc != 0:
            print("patch does not apply:", out); return 2
        rc, out = sh("go build ./... && go test -vet=off -count=1 ./...", wt)
        meta["suite_with_change"] = "pass" if rc == 0 else "FAIL"
        meta["ran"].append("scratch worktree: git apply patch; go build ./... && go test -vet=off -count=1 ./...  -> %s" % meta["suite_with_change"])
        for d in demos:
            os.makedirs(os.path.dirname(os.path.join(wt, d)) or wt, exist_ok=True)
            shutil.copy(os.path.join(src, d), os.path.join(wt, d))
        pk = sorted(set("./" + (os.path.dirname(d) or ".") for d in demos))
        democmd = "go test -vet=off -count=1 " + os.environ.get('SEED_DEMO_FLAGS', '') + " -run '(?i)seed' " + " ".join(pk)
        rc, out = sh(democmd, wt)
        meta["demo_with_change"] = "fail (as required)" if rc != 0 else "PASSES (demo does not detect the change)"
        meta["ran"].append("%s with change -> exit %d" % (democmd, rc))
        sh("git apply -R --whitespace=nowarn %s" % patch, wt)
        rc2, out2 = sh(democmd, wt)
        meta["demo_without_change"] = "pass (as required)" if rc2 == 0 else "FAILS on the original code"
        meta["ran"].append("%s without change -> exit %d" % (democmd, rc2))
        confirmed = meta["suite_with_change"] == "pass" and rc != 0 and rc2 == 0
        meta["confirmed"] = confirmed
    finally:
        subprocess.run("git -C /repo worktree remove --force %s; git -C /repo worktree prune" % wt, shell=True)
    print(json.dumps({k: meta[k] for k in ("suite_with_change", "demo_with_change", "demo_without_change", "confirmed")}))
    if not meta["confirmed"]:
        print("NOT CONFIRMED - not kept"); return 3
    # run our checks against it
    if subprocess.run("git -C /repo diff --quiet", shell=True).returncode != 0:
        print("/repo not clean"); return 2
    rc, out = sh("git -C /repo apply --whitespace=nowarn %s" % patch, "/repo")
    results = {}
    try:
        for c in checks:
            t0 = time.time()
            rc, out = sh("./check %s quick" % c, "/verif", timeout=3600)
            first = [l for l in out.splitlines() if l.startswith("VIOLATION") or l.startswith("  key=")][:2]
            results[c] = {"exit": rc, "seconds": round(time.time() - t0, 1), "report": " ".join(first)[:400]}
            meta["ran"].append("git -C /repo apply patch; ./check %s quick -> exit %d" % (c, rc))
            print(c, "exit", rc, " ".join(first)[:300])
    finally:
        subprocess.run("git -C /repo checkout -- . && git -C /repo clean -fdq", shell=True)
    meta["checks"] = results
    meta["caught_by"] = [c for c, r in results.items() if r["exit"] == 1]
    dst = os.path.join("/verif/seeded", name)
    os.makedirs(dst, exist_ok=True)
    shutil.copy(patch, os.path.join(dst, "patch.diff"))
    for d in demos:
        shutil.copy(os.path.join(src, d), os.path.join(dst, os.path.basename(d)))
        meta.setdefault("demo_files", []).append({"file": os.path.basename(d), "package_dir": os.path.dirname(d) or "."})
    notes = os.path.join(src, "seed_notes.md")
    if os.path.exists(notes):
        shutil.copy(notes, os.path.join(dst, "notes.md"))
        meta["needs_to_manifest"] = "see notes.md"
    json.dump(meta, open(os.path.join(dst, "meta.json"), "w"), indent=1)
    return 0

sys.exit(main())
