#!/usr/bin/env python3
"""tools/mkround.py <n>: prepares seeding round n (worktrees /tmp/seed<n>/Cxx and prompts) from the prompt template next to
this script (flavour rotated by three per round) and seeded/summaries.json (ideas to avoid).  The prompt gives the agent only
the property's text, a generic flavour, and the list of earlier ideas."""
import json,subprocess,os,re,sys
n=sys.argv[1]
props={}
for l in open('/verif/properties.jsonl'):
    p=json.loads(l); props[p['id']]=p
summ=json.load(open('/verif/seeded/summaries.json'))
letters=[
"the change is a performance optimisation (a fast path, a cache, batching, a smaller table, fewer passes) that is wrong only for a narrow class of inputs",
"the change is a defensive validation or sanitising step that rejects or silently alters a narrow class of valid inputs",
"the change is a refactoring (a shared helper, changed integer or float types/precision, reordered operations, a loop rewritten) that is equivalent except in one corner",
"the change sits in an error-handling, early-exit or cleanup path and misbehaves only after a particular earlier event or for a particular earlier input",
"the change adds a small, plausible new feature or option next to the existing code (a new accessor, support for one more variant of a format, a convenience wrapper) and thereby disturbs existing behaviour in one corner",
"the change only shows after the library has been used for a while in the same process (a counter that wraps or passes a threshold, a cache or pool that fills up, accumulated state), or only for inputs beyond some size",
"the change is a portability or robustness 'fix' (32-bit safety, endianness, overflow checks, locale/time handling, unusual reader or image implementations) that is itself wrong in one corner",
"the change makes two exported functions that should agree (two constructors, two loaders, encode and decode, the image-level and the colour-level function) disagree in one corner, while each still looks right on its own typical inputs",
]
here=os.path.dirname(os.path.abspath(__file__))
head=open(here+'/seed_prompt_head.txt').read()
tail=open(here+'/seed_prompt_tail.txt').read()
os.makedirs('/tmp/seed%s'%n,exist_ok=True)
for k,p in props.items():
    fl=letters[(6*(int(k[1:])-1)+3*(int(n)-14))%8]
    d='/tmp/seed%s/%s'%(n,k)
    subprocess.run("git -C /repo worktree add -q --detach %s HEAD"%d,shell=True,check=True)
    body=head.replace('{wt}',d)
    body+="The library is supposed to satisfy this property:\n\n  %s\n  %s\n\n"%(p['title'],p['statement'])
    body+="""Your task: make a SMALL, realistic source change to the library (non-test .go files only, in %s) that BREAKS this property, while
  (a) the library still compiles,
  (b) the library's existing test suite still passes unedited:  cd %s && GOFLAGS=-mod=mod GOPROXY=off GOSUMDB=off GOTOOLCHAIN=local go test -vet=off -count=1 ./...
  (c) the breakage is HARD TO FIND by testing: it must need something quite specific to manifest, yet still be a realistic mistake and a real violation of the property as stated above (not a technicality, and not something outside the property's scope; keep inputs within what the property quantifies over, and keep resource needs modest: demonstrable with well under 100 MB of memory and a few seconds). Do not rely on secret constants, hash collisions or other values that could only be found by reading your code: the trigger must be something a user of the library could plausibly meet.
  This time: %s.

IMPORTANT - be different. Other developers already tried these ideas; do NOT repeat them or close variants:
"""%(d,d,fl)
    for i,t in enumerate(summ[k]): body+="  %d. %s\n"%(i+1,t)
    body+="Pick a different function, file, mechanism and trigger condition from all of the above."
    body+=tail.replace('{wt}',d)
    open('/tmp/seed%s/%s.prompt.txt'%(n,k),'w').write(body)
print('ok')
