#!/usr/bin/env python3
"""Regenerates /verif/MANIFEST.json from the table below (run after adding a check)."""
import json, os
ROOT = os.path.dirname(os.path.dirname(os.path.abspath(__file__)))

# id: (category, technique, level text, level note, design ref)
P = {
 "C01": ("exploration", "exhaustive enumeration of all codes x entry points (all standard colour types) against an independent float64 EOTF oracle; fresh-process call-order probes under several GOMAXPROCS",
         "Every one of the 256 8-bit and 65,536 16-bit codes is pushed through every public decode entry point of all 4 spaces and compared with the published EOTF evaluated in float64 (abs 3e-7), plus exact end points, strict monotonicity and 8-bit == 16-bit(257v). The domain is finite and enumerated completely in both tiers, so for the property as stated this is a decision, not a sample.",
         "Trusts the transcription of the published transfer-function constants in harness/internal/ref and the Go math library (float64 pow).", "4/C01"),
 "C02": ("exploration", "generated float32 bit patterns (boundary-targeted quick, all 2^32 thorough) against an interval oracle from the published OETF; fresh-process call-order probes under several GOMAXPROCS",
         "Quick visits every table-bucket boundary +-2 ulp, every float32 exponent with seeded mantissas, and all specials; thorough walks all 2^32 float32 patterns per encoder in numeric order, checking no-panic, clipping, monotonicity and the half-code/half-step interval at both ends of every constant run (equivalent to every float because the bounds are monotone).",
         "Trusts internal/ref OETFs; NaN only required not to panic; 2^-22 relative slack for float32 table construction is stated in evidence.", "4/C02"),
 "C03": ("exploration", "coefficient probing + lattice/special-value/rapid triples against a float64 matrix derived independently from the declared chromaticities; call-order probes; mutate-after-construct relation",
         "Declared primaries/white compared with the published values; the 9+9 matrix coefficients recovered by probing the public API and compared with an independently derived float64 matrix; linearity, no clamping and inversion on a 2^18 (quick) / 2^24 (thorough) lattice plus rapid triples in [-1,2]^3.",
         "Trusts the table of published chromaticities in internal/ref and its Gauss-Jordan inverse.", "4/C03"),
 "C04": ("exploration", "lattice + rapid pixels through the documented pipeline against an independent float64 colorimetric reference with an interval oracle",
         "All 16 ordered space pairs; quick: 64^3 lattice, greys, cube faces, rapid pixels, alpha sweep, a lattice of pixels each sent to every destination in turn (history: the preceding conversion of the same pixel); thorough: all 2^24 RGB per pair. Oracle is the float64 pipeline built from published formulas and declared chromaticities, compared through the encoder's own stated half-step/half-code interval.",
         "Trusts internal/ref (EOTF/OETF, Bradford, matrix derivation).", "4/C04"),
 "C05": ("exploration", "rapid grammar-built PNG/JPEG/WebP files + header field sweeps, differential against the generator's fields and std/x-image DecodeConfig; metamorphic over reader dynamic type/position",
         "Files are built from a grammar (every PNG colour type/bit depth, JPEG SOF0/SOF2 with random segments, VP8/VP8L/VP8X) and field sweeps over the dimension fields; results are compared with the written fields and with image/png, image/jpeg and x/image/webp DecodeConfig, through the specific loaders and autometa.",
         "Trusts the harness' container builders (cross-checked by the standard decoders accepting the files).", "4/C05"),
 "C06": ("exploration", "rapid-generated embedded profiles (sizes straddling buffer boundaries, chunk permutations, damage classes) with round-trip and model oracles",
         "Round-trip oracle for undamaged profiles in all three containers; (nil,nil) for none; for each damage class a reference model states whether an error is mandatory or a validity predicate applies.",
         "Trusts harness builders and compress/zlib as the deflate reference.", "4/C06"),
 "C07": ("fault_enumeration", "enumeration of every truncation point and every sticky I/O-fault position (seven error values, two of uncomparable types) of each seed file under several read schedules, reader types (standard readers, a pipe, sources positioned past their end) and ways of draining; streaks and chained loads; replay-stream oracle; native fuzzing in thorough",
         "For each seed (repository images, grammar-built and corrupted files) every prefix length and every fault position is enumerated (<= 8 KiB; structural boundaries beyond), across source schedules and the four loaders; the returned stream must yield exactly the delivered bytes then the injected error or EOF, and nothing may panic.",
         "Faults are sticky (a failed source keeps failing); a source returns (0,nil) only when the case says so (every n-th read, never twice in a row).", "4/C07"),
 "C08": ("exploration", "metamorphic: outcome under generated read schedules == outcome under all-at-once delivery",
         "Every input (valid, large-profile, damaged, truncated) is loaded under fixed segment sizes 1,2,3,7,8,4095,4096,4097, rapid size lists and data+EOF delivery; the outcome tuple must equal the all-at-once outcome for the four loaders and the ICC reader behind bufio readers of several sizes.",
         "Error text is not compared, only success/error and values.", "4/C08"),
 "C09": ("exploration", "field-matrix boundary values, rapid structure-aware mutation, truncation sweep (+ native fuzzing in thorough) with panic / allocation-bound / watchdog oracles",
         "Every length/count/offset field of every seed x hostile values, rapid multi-operator mutations, every truncation; oracle = no escaping panic, TotalAlloc delta <= A + B*len(input), call returns within a budget. Thorough adds coverage-guided native fuzzing seeded with the same corpus.",
         "Absence over all byte strings is not established; the bound constants are stated in evidence.", "4/C09"),
 "C10": ("exploration", "rapid images (all std types, origins, sub-images, strides, parallelism, in-place, tiles of one canvas) against a Set()-based reference model compared byte-for-byte over the whole parent buffer; fresh-process first-call probes; a soak of small calls with recurrences at wrap distances",
         "Model-based: a clone of the destination parent is updated through the standard library's Set with the per-colour function; the real parent's entire Pix must equal it.",
         "Per-colour functions themselves are C01/C02/C14's business; destination smaller than source is outside the precondition.", "4/C10"),
 "C11": ("exploration", "generated goroutine schedules (hammer trials, crowds on few processors, walking load storms, one first-use trial per lazy operation and space), each run in a fresh race-instrumented process; oracle = race detector + agreement with a sequential run at parallelism 1",
         "Trial descriptions (goroutine count, GOMAXPROCS, per-goroutine operation lists, barrier shape) are generated from the seed; each runs in a fresh process built with -race from the current tree so first-use initialisation really races; results are compared with a sequential execution.",
         "Explores schedules only as far as the Go scheduler varies them; the happens-before race detector does not need the bad interleaving to occur, only both accesses.", "4/C11"),
 "C12": ("exploration", "table/grid/rapid white-point pairs and triples against an independent float64 Bradford implementation with conditioning-aware tolerances",
         "White->white, equality with the float64 Bradford matrix, linearity, identity, inverse and composition laws, xyY vs XYZ constructors.",
         "White points restricted to positive Bradford cone responses (reported).", "4/C12"),
 "C13": ("exploration", "lattice + rapid XYZ/Lab points, junction sweeps of consecutive floats, against the float64 CIE 1976 definition",
         "Definition agreement within 1e-3, white -> (100,0,0), neutrals, monotone L, continuity at the junction, inverse and round trip within 1e-5, finiteness.",
         "Colour/white ratios within about [-1, 4] (small or lopsided whites get colours drawn relative to them) so the stated tolerances are satisfiable in float32 (see DESIGN).", "4/C13"),
 "C14": ("exploration", "exhaustive alpha sweeps and (channel<=alpha) pair enumeration with exactness / validity oracles",
         "All alphas through every constructor/converter; transparent pixels; premultiplied validity for all alphas x stratified channels (quick) / every pair (thorough); constructor agreement for opaque colours.",
         "Reading of 'transparent decodes to zero colour' for the non-premultiplied constructor is documented in DESIGN.", "4/C14"),
 "C15": ("exploration", "rapid images of every std type (incl. planes with strides of their own, crops of large parents, repeated rows) differentially against image/draw.Draw(Src); fresh-process first-call probes per type, helper and parallelism",
         "Differential oracle: same bounds, identical Pix/Stride as draw.Draw; same instance for target type; input backing arrays unchanged.",
         "Trusts image/draw.", "4/C15"),
 "C16": ("exploration", "walking-ones over all 1024 header bits, field sweeps and rapid headers against encoding/binary at the ICC.1 offsets; the same header through other readers, behind other tags, through a reused reader and past a transient error",
         "Each header bit is shown to feed exactly the field the specification assigns; version rendering over all 65,536 version byte pairs; date-time components; non-acsp rejected.",
         "Trusts the ICC.1 offset table transcribed in the harness.", "4/C16"),
 "C17": ("exploration", "rapid grammar-built ICC profiles (tag tables, layouts, desc/mluc, legal header fields) with a validity-predicate oracle for the description; predecessors (a damaged profile, the profile's twin), reused buffers and metadata values",
         "Tag counts 0-64, any layout/sharing/padding, v2 and v4 descriptions with many records and string placements; description must be a member of the allowed set.",
         "Trusts the harness ICC builder.", "4/C17"),
 "C18": ("exploration", "rapid files with large lazy pixel payloads behind an instrumented reader; byte-count bound and truncation metamorphic relation",
         "Bytes pulled from the source when Load returns <= needEnd + 64 KiB for payloads up to MiBs, under all read schedules; loading the file truncated at needEnd gives the same result.",
         "needEnd comes from the harness builders' field maps.", "4/C18"),
 "C19": ("exploration", "differential: autometa.Load vs the first succeeding specific loader on valid, damaged, truncated and polyglot inputs, under read schedules, standard reader types, chained loads and a volume of > 1 GiB (thorough > 13 GiB) per process",
         "Same tuple as the first succeeding specific loader, or (nil, error); stream always replays the input.",
         "Both sides are prism code; independence comes from C05/C06 for the specific loaders.", "4/C19"),
 "C20": ("exploration", "published + rapid primaries triangles and matrices against an independent row-major float64 Gauss-Jordan algebra; singular matrices must panic",
         "White/primary mapping, From*To = I within 1e-9*cond, Inverse/MulM/MulV/Transpose agreement, singular Inverse panics.",
         "Trusts internal/ref algebra.", "4/C20"),
}

CLAIMED = sorted(d.upper() for d in os.listdir(os.path.join(ROOT, "harness"))
                 if len(d) == 3 and d[0] == "c" and d[1:].isdigit())

checks = []
for pid in CLAIMED:
    cat, tech, text, note, ref = P[pid]
    checks.append({
        "property_id": pid,
        "quick_cmd": "./check %s quick" % pid,
        "thorough_cmd": "./check %s thorough" % pid,
        "evidence_file": "/verif/evidence/%s.json" % pid,
        "replay_cmd_template": "./check %s --replay {path}" % pid,
        "engine": "harness",
        "level_claimed": {"category": cat, "text": text, "design_ref": "DESIGN.md section " + ref},
        "level_note": note,
        "technique": "property-based testing / fuzzing: " + tech,
    })
na = [{"property_id": pid, "reason": "check not built yet at this commit (work in progress; see DESIGN.md section 4)"}
      for pid in sorted(P) if pid not in CLAIMED]
m = {
    "version": 1,
    "setup_cmd": "./check --setup",
    "hooks": {
        "guard": "verif",
        "enable": "no source hooks are needed: every observation point is public API, an io.Reader supplied by the harness, or process exit status; checks build /repo as it is (go build tag 'verif' reserved, unused)",
        "baseline_off_cmd": "cd /repo && GOFLAGS=-mod=mod GOPROXY=off GOSUMDB=off GOTOOLCHAIN=local go test -vet=off -count=1 ./...",
        "source_commits": [],
        "add_only": True,
    },
    "engines": [{"name": "harness", "path": "/verif/harness", "serves_properties": CLAIMED,
                 "kind_free_text": "Go module: one test binary per property (exhaustive enumerators, pgregory.net/rapid v1.3.0 generators with shrinking, native go fuzzing in thorough tiers), independent float64/std-library oracles, driver ./check"}],
    "checks": checks,
    "not_applicable": na,
    "notes": "Exit status 2 from ./check means inconclusive (build/harness/timeout), never a violation. Known findings: /verif/known_findings.jsonl.",
}
json.dump(m, open(os.path.join(ROOT, "MANIFEST.json"), "w"), indent=1)
print("claimed:", CLAIMED, "not_applicable:", [x["property_id"] for x in na])
